//! C03 — peer-controlled input never crashes or hangs an endpoint.
//! (a) unauthenticated byte mutations (shares C04's injection machinery),
//! (b) authenticated hostile frames through the puppet peer,
//! (c) hostile transport-parameter encodings through the model-TLS override.

use std::{
    collections::BTreeMap,
    hash::{Hash, Hasher},
    sync::Arc,
    time::{Duration, Instant},
};

use bytes::BytesMut;
use proto::{ConnectionError, ConnectionHandle, Side};
use serde_json::{json, Value};

use crate::{
    app::{ReadMode, StdApp},
    explore::{self, deadline, e3, guarded},
    ledger::{cid_len_of, decode},
    puppet::{puppet_for, Puppet},
    report::{machinery, Args, Report, Tier, Violation},
    scen::{cfg_by_name, plans, workload_done, StdPair, Wl},
    sim::{addr, client_config, server_config, Pair, PairCfg, Rec, CLIENT, SERVER},
    wire::{self, put_var, stream_id, WFrame},
};

pub const PV: u64 = 0xa;
pub const FLOW: u64 = 0x3;
pub const SLIM: u64 = 0x4;
pub const SSTATE: u64 = 0x5;
pub const FSIZE: u64 = 0x6;
pub const FENC: u64 = 0x7;
pub const TPE: u64 = 0x8;
pub const CIDLIM: u64 = 0x9;
pub const CRYPTOBUF: u64 = 0xd;

#[derive(Clone, Debug)]
pub struct Hostile {
    pub name: String,
    pub payload: Vec<u8>,
    /// Transport error codes QUIC prescribes or permits for this input; empty = the input is
    /// legal and must not terminate the connection
    pub allowed: Vec<u64>,
    /// The input itself asks to close (CONNECTION_CLOSE)
    pub peer_close: bool,
}

fn h(name: &str, frames: &[WFrame], allowed: &[u64]) -> Hostile {
    Hostile { name: name.into(), payload: wire::frames_bytes(frames), allowed: allowed.to_vec(), peer_close: false }
}
fn raw(name: &str, payload: Vec<u8>, allowed: &[u64]) -> Hostile {
    // four leading PINGs keep the packet above the minimum payload length without the forge
    // appending zero bytes, which would complete a deliberately truncated frame
    let mut p = vec![1u8, 1, 1, 1];
    p.extend_from_slice(&payload);
    Hostile { name: name.into(), payload: p, allowed: allowed.to_vec(), peer_close: false }
}

/// Raw (possibly malformed) encodings only make sense as the last thing in a packet
fn is_raw(h: &Hostile) -> bool {
    // (a frame without a length field swallows whatever follows it in the packet)
    h.payload.starts_with(&[1, 1, 1, 1]) || h.name.ends_with("no-len")
}

fn stream_related(h: &Hostile) -> bool {
    ["STREAM", "RESET_STREAM", "STOP_SENDING", "MAX_STREAM_DATA", "STREAM_DATA_BLOCKED"].iter().any(|p| h.name.starts_with(p))
}

#[derive(Clone, Debug, PartialEq, Eq, Hash, PartialOrd, Ord)]
pub enum LCfg {
    Default,
    AckFreq,
    Cid0,
    NoDatagrams,
    Tiny,
}

pub fn lcfg(l: &LCfg) -> PairCfg {
    let mut c = cfg_by_name("default");
    match l {
        LCfg::Default => {}
        LCfg::AckFreq => {
            c.client.ack_freq = true;
            c.server.ack_freq = true;
        }
        LCfg::Cid0 => c.cid_len = 0,
        LCfg::NoDatagrams => {
            c.client.dgram_recv = Some(None);
            c.server.dgram_recv = Some(None);
        }
        LCfg::Tiny => {
            for t in [&mut c.client, &mut c.server] {
                t.recv_window = Some(1200);
                t.stream_recv_window = Some(600);
                t.max_bidi = Some(2);
                t.max_uni = Some(2);
                t.dgram_recv = Some(Some(300));
            }
        }
    }
    c.client.name = format!("{l:?}");
    c
}

/// Hostile 1-RTT frame alphabet. `vs` = victim is the server (the puppet speaks as client).
pub fn alphabet(vs: bool, l: &LCfg) -> Vec<Hostile> {
    let cfg = lcfg(l);
    let vt = if vs { &cfg.server } else { &cfg.client };
    let max_bidi = vt.max_bidi.unwrap_or(100);
    let max_uni = vt.max_uni.unwrap_or(100);
    let swin = vt.stream_recv_window.unwrap_or(1_250_000);
    let cwin = vt.recv_window.unwrap_or((1 << 62) - 1);
    // stream ids from the puppet's point of view
    let p_bidi = |i: u64| stream_id(vs, true, i); // puppet-initiated (puppet is client iff victim is server)
    let p_uni = |i: u64| stream_id(vs, false, i);
    let v_bidi = |i: u64| stream_id(!vs, true, i);
    let v_uni = |i: u64| stream_id(!vs, false, i);
    let st = |id: u64, off: u64, len: usize, fin: bool| WFrame::Stream { id, off, fin, data: vec![0x5a; len], has_len: true };
    let mut v = vec![];
    v.push(h("PING", &[WFrame::Ping], &[]));
    v.push(h("PADDING", &[WFrame::Padding(20)], &[]));
    v.push(h("STREAM new bidi", &[st(p_bidi(1), 0, 10, false)], &[]));
    v.push(h("STREAM new uni fin", &[st(p_uni(1), 0, 10, true)], &[]));
    v.push(h("STREAM empty fin", &[st(p_uni(1), 0, 0, true)], &[]));
    v.push(h("STREAM index limit-1", &[st(p_bidi(max_bidi - 1), 0, 1, false)], &[]));
    v.push(h("STREAM index limit", &[st(p_bidi(max_bidi), 0, 1, false)], &[SLIM]));
    v.push(h("STREAM uni index limit", &[st(p_uni(max_uni), 0, 1, false)], &[SLIM]));
    v.push(h("STREAM index 2^60-1", &[st(p_bidi((1 << 60) - 1), 0, 1, false)], &[SLIM]));
    v.push(h("STREAM on victim send-only", &[st(v_uni(0), 0, 1, false)], &[SSTATE]));
    v.push(h("STREAM on unopened victim bidi", &[st(v_bidi(50), 0, 1, false)], &[SSTATE]));
    v.push(h("STREAM at window edge", &[st(p_bidi(1), swin.min(cwin) - 1, 1, false)], &[]));
    v.push(h("STREAM beyond stream window", &[st(p_bidi(1), swin, 1, false)], &[FLOW]));
    // a large frame that can never be read (offset 0 is never sent); repeated, it must not pin memory
    v.push(h("STREAM large behind gap", &[st(p_uni(1), 1, (swin.min(cwin) - 1).min(1000) as usize, false)], &[]));
    v.push(h("STREAM offset 2^62-1", &[st(p_bidi(1), (1 << 62) - 1, 1, false)], &[FLOW, FENC]));
    v.push(h("STREAM final size conflict", &[st(p_uni(1), 0, 5, true), st(p_uni(1), 5, 3, false)], &[FSIZE]));
    v.push(h("STREAM two different fins", &[st(p_uni(1), 0, 5, true), st(p_uni(1), 0, 4, true)], &[FSIZE]));
    // three-frame stream histories around a known final size (the quick tier enumerates pairs of
    // alphabet entries only)
    v.push(h("STREAM fin, data beyond it, RESET_STREAM at the final size", &[st(p_uni(1), 0, 5, true), st(p_uni(1), 5, 3, false), WFrame::ResetStream { id: p_uni(1), code: 7, final_size: 5 }], &[FSIZE]));
    v.push(h("STREAM fin, data beyond it, RESET_STREAM beyond", &[st(p_uni(1), 0, 5, true), st(p_uni(1), 5, 3, false), WFrame::ResetStream { id: p_uni(1), code: 7, final_size: 8 }], &[FSIZE]));
    v.push(h("RESET_STREAM, data beyond its final size, RESET_STREAM again", &[WFrame::ResetStream { id: p_uni(1), code: 7, final_size: 4 }, st(p_uni(1), 4, 6, false), WFrame::ResetStream { id: p_uni(1), code: 7, final_size: 4 }], &[FSIZE]));
    v.push(h("STREAM fin on bidi, data beyond it, STOP_SENDING + RESET_STREAM", &[st(p_bidi(1), 0, 5, true), st(p_bidi(1), 6, 2, false), WFrame::StopSending { id: p_bidi(1), code: 1 }, WFrame::ResetStream { id: p_bidi(1), code: 7, final_size: 5 }], &[FSIZE]));
    v.push(h("RESET_STREAM new", &[WFrame::ResetStream { id: p_uni(1), code: 7, final_size: 0 }], &[]));
    v.push(h("RESET_STREAM beyond window", &[WFrame::ResetStream { id: p_uni(1), code: 7, final_size: swin + 1 }], &[FLOW]));
    v.push(h("RESET_STREAM shrinking final size", &[st(p_uni(1), 0, 9, false), WFrame::ResetStream { id: p_uni(1), code: 7, final_size: 3 }], &[FSIZE]));
    v.push(h("RESET_STREAM on victim send-only", &[WFrame::ResetStream { id: v_uni(0), code: 1, final_size: 0 }], &[SSTATE]));
    v.push(h("RESET_STREAM index limit", &[WFrame::ResetStream { id: p_uni(max_uni), code: 1, final_size: 0 }], &[SLIM]));
    v.push(h("STOP_SENDING on puppet uni", &[WFrame::StopSending { id: p_uni(0), code: 1 }], &[SSTATE]));
    v.push(h("STOP_SENDING unopened victim bidi", &[WFrame::StopSending { id: v_bidi(50), code: 1 }], &[SSTATE]));
    v.push(h("STOP_SENDING puppet bidi", &[WFrame::StopSending { id: p_bidi(1), code: 1 }], &[]));
    v.push(h("STOP_SENDING index limit", &[WFrame::StopSending { id: p_bidi(max_bidi), code: 1 }], &[SLIM]));
    v.push(h("MAX_DATA 0", &[WFrame::MaxData(0)], &[]));
    v.push(h("MAX_DATA max", &[WFrame::MaxData((1 << 62) - 1)], &[]));
    v.push(h("MAX_STREAM_DATA puppet bidi", &[WFrame::MaxStreamData { id: p_bidi(1), max: 1 << 40 }], &[]));
    v.push(h("MAX_STREAM_DATA on puppet uni", &[WFrame::MaxStreamData { id: p_uni(0), max: 5 }], &[SSTATE]));
    v.push(h("MAX_STREAM_DATA unopened victim bidi", &[WFrame::MaxStreamData { id: v_bidi(50), max: 5 }], &[SSTATE]));
    v.push(h("MAX_STREAM_DATA index limit", &[WFrame::MaxStreamData { id: p_bidi(max_bidi), max: 5 }], &[SLIM]));
    v.push(h("MAX_STREAMS bidi 2^60", &[WFrame::MaxStreams { bidi: true, max: 1 << 60 }], &[]));
    v.push(h("MAX_STREAMS uni 2^60+1", &[WFrame::MaxStreams { bidi: false, max: (1 << 60) + 1 }], &[FENC]));
    v.push(h("MAX_STREAMS 0", &[WFrame::MaxStreams { bidi: true, max: 0 }], &[]));
    v.push(h("DATA_BLOCKED", &[WFrame::DataBlocked(12345)], &[]));
    v.push(h("STREAM_DATA_BLOCKED puppet bidi", &[WFrame::StreamDataBlocked { id: p_bidi(1), limit: 5 }], &[]));
    v.push(h("STREAM_DATA_BLOCKED on victim send-only", &[WFrame::StreamDataBlocked { id: v_uni(0), limit: 5 }], &[SSTATE]));
    v.push(h("STREAMS_BLOCKED 2^60", &[WFrame::StreamsBlocked { bidi: true, limit: 1 << 60 }], &[]));
    v.push(h("STREAMS_BLOCKED 2^60+1", &[WFrame::StreamsBlocked { bidi: false, limit: (1 << 60) + 1 }], &[FENC, SLIM]));
    v.push(h("ACK of unsent packet", &[WFrame::Ack(wire::AckF { largest: 1_000_000_000, delay: 0, ranges: vec![(1_000_000_000, 1_000_000_000)], ecn: None })], &[PV]));
    v.push(h("ACK largest 2^62-1", &[WFrame::Ack(wire::AckF { largest: (1 << 62) - 1, delay: (1 << 62) - 1, ranges: vec![(0, (1 << 62) - 1)], ecn: Some(((1 << 62) - 1, 0, 0)) })], &[PV]));
    {
        // ACK with first range larger than largest
        let mut p = vec![0x02];
        put_var(&mut p, 3);
        put_var(&mut p, 0);
        put_var(&mut p, 0);
        put_var(&mut p, 9);
        v.push(raw("ACK first range underflow", p, &[FENC]));
        // ACK with gap underflow
        let mut p = vec![0x02];
        put_var(&mut p, 5);
        put_var(&mut p, 0);
        put_var(&mut p, 1);
        put_var(&mut p, 1);
        put_var(&mut p, 60);
        put_var(&mut p, 0);
        v.push(raw("ACK gap underflow", p, &[FENC]));
        // ACK ranges descending to packet number 0 and just below it: every (largest, first range,
        // gap, length[, gap, length]) whose last range would end at 0, -1, -2 or -3
        for largest in [1i64, 2, 3, 4, 6] {
            for first in [0i64, 1] {
                for gap in [0i64, 1] {
                    for len in [0i64, 1, 2] {
                        let end = largest - first - gap - 2 - len;
                        if (-3..=0).contains(&end) && first <= largest {
                            let mut p = vec![0x02];
                            put_var(&mut p, largest as u64);
                            put_var(&mut p, 0);
                            put_var(&mut p, 1);
                            put_var(&mut p, first as u64);
                            put_var(&mut p, gap as u64);
                            put_var(&mut p, len as u64);
                            v.push(raw(&format!("ACK largest={largest} first={first} gap={gap} len={len} (last range ends at {end})"), p, &[FENC, PV]));
                        }
                        // a third range right after a second one that ends at 1 or 0
                        let end2 = end - 2;
                        if end >= 0 && end <= 1 && first <= largest {
                            let mut p = vec![0x02];
                            put_var(&mut p, largest as u64);
                            put_var(&mut p, 0);
                            put_var(&mut p, 2);
                            put_var(&mut p, first as u64);
                            put_var(&mut p, gap as u64);
                            put_var(&mut p, len as u64);
                            put_var(&mut p, 0);
                            put_var(&mut p, 0);
                            v.push(raw(&format!("ACK largest={largest} first={first} gap={gap} len={len} + (gap 0, len 0) (last range ends at {end2})"), p, &[FENC, PV]));
                        }
                    }
                }
            }
        }
        // ACK announcing 2^40 ranges, truncated
        let mut p = vec![0x02];
        put_var(&mut p, 5);
        put_var(&mut p, 0);
        put_var(&mut p, 1 << 40);
        put_var(&mut p, 0);
        v.push(raw("ACK huge range count truncated", p, &[FENC]));
    }
    let ncid = |seq: u64, rpt: u64, len: usize| WFrame::NewConnectionId { seq, retire_prior_to: rpt, cid: vec![0xc0 + seq as u8; len], token: [seq as u8; 16] };
    let cid_in_use = *l != LCfg::Cid0;
    let nc_ok: &[u64] = if cid_in_use { &[] } else { &[PV] };
    v.push(h("NEW_CONNECTION_ID fresh seq", &[ncid(9, 0, 8)], if cid_in_use { &[CIDLIM] } else { &[PV] }));
    v.push(h("NEW_CONNECTION_ID retire all", &[ncid(20, 20, 8)], nc_ok));
    {
        let mut p = vec![0x18];
        put_var(&mut p, 3);
        put_var(&mut p, 4);
        p.push(8);
        p.extend_from_slice(&[1; 24]);
        v.push(raw("NEW_CONNECTION_ID retire_prior_to > seq", p, &[FENC, PV]));
        let mut p = vec![0x18];
        put_var(&mut p, 30);
        put_var(&mut p, 0);
        p.push(0);
        p.extend_from_slice(&[1; 16]);
        v.push(raw("NEW_CONNECTION_ID zero-length cid", p, &[FENC, PV]));
        let mut p = vec![0x18];
        put_var(&mut p, 30);
        put_var(&mut p, 0);
        p.push(21);
        p.extend_from_slice(&[1; 37]);
        v.push(raw("NEW_CONNECTION_ID 21-byte cid", p, &[FENC, PV]));
    }
    v.push(h("NEW_CONNECTION_ID same seq other cid", &[ncid(40, 40, 8), WFrame::NewConnectionId { seq: 40, retire_prior_to: 40, cid: vec![0x77; 8], token: [9; 16] }], if cid_in_use { &[PV] } else { &[PV] }));
    v.push(h("RETIRE_CONNECTION_ID unissued", &[WFrame::RetireConnectionId(1000)], &[PV]));
    v.push(h("RETIRE_CONNECTION_ID seq 1", &[WFrame::RetireConnectionId(1)], if cid_in_use { &[] } else { &[PV] }));
    v.push(h("PATH_CHALLENGE x20", &(0..20).map(WFrame::PathChallenge).collect::<Vec<_>>(), &[]));
    v.push(h("PATH_RESPONSE unsolicited", &[WFrame::PathResponse(42)], &[PV]));
    let af_ok: &[u64] = if *l == LCfg::AckFreq { &[] } else { &[FENC, PV] };
    v.push(h("ACK_FREQUENCY plausible", &[WFrame::AckFrequency { seq: 0, threshold: 2, max_delay: 25_000, reorder: 1 }], af_ok));
    v.push(h("ACK_FREQUENCY delay 0", &[WFrame::AckFrequency { seq: 1, threshold: 0, max_delay: 0, reorder: 0 }], &[FENC, PV]));
    v.push(h("ACK_FREQUENCY all max", &[WFrame::AckFrequency { seq: (1 << 62) - 1, threshold: (1 << 62) - 1, max_delay: (1 << 62) - 1, reorder: (1 << 62) - 1 }], if *l == LCfg::AckFreq { &[PV] } else { &[FENC, PV] }));
    v.push(h("IMMEDIATE_ACK", &[WFrame::ImmediateAck], af_ok));
    if vs {
        v.push(h("NEW_TOKEN to server", &[WFrame::NewToken(vec![1, 2, 3])], &[PV]));
        v.push(h("HANDSHAKE_DONE to server", &[WFrame::HandshakeDone], &[PV]));
    } else {
        v.push(h("NEW_TOKEN", &[WFrame::NewToken(vec![1, 2, 3])], &[]));
        v.push(h("NEW_TOKEN empty", &[WFrame::NewToken(vec![])], &[FENC]));
        v.push(h("HANDSHAKE_DONE", &[WFrame::HandshakeDone], &[]));
    }
    let dg_on = *l != LCfg::NoDatagrams;
    let dg_max: usize = if *l == LCfg::Tiny { 300 } else { 1150 };
    v.push(h("DATAGRAM empty", &[WFrame::Datagram { data: vec![], has_len: true }], if dg_on { &[] } else { &[PV] }));
    v.push(h("DATAGRAM small no-len", &[WFrame::Datagram { data: vec![7; 20], has_len: false }], if dg_on { &[] } else { &[PV] }));
    v.push(h("DATAGRAM near max", &[WFrame::Datagram { data: vec![7; dg_max - 10], has_len: true }], if dg_on { &[] } else { &[PV] }));
    if *l == LCfg::Tiny {
        v.push(h("DATAGRAM above advertised max", &[WFrame::Datagram { data: vec![7; 400], has_len: true }], &[PV]));
    }
    v.push(h("CRYPTO gap", &[WFrame::Crypto { off: 100, data: vec![0; 1] }], &[]));
    v.push(h("CRYPTO large behind gap", &[WFrame::Crypto { off: 1, data: vec![0; 1000] }], &[]));
    v.push(h("CRYPTO far beyond buffer", &[WFrame::Crypto { off: 1 << 30, data: vec![0; 1] }], &[CRYPTOBUF]));
    v.push(h("CRYPTO offset 2^62-1", &[WFrame::Crypto { off: (1 << 62) - 1, data: vec![0; 1] }], &[CRYPTOBUF, FENC]));
    v.push(raw("unknown frame type 0x21", vec![0x21, 1, 2, 3], &[FENC]));
    v.push(raw("unknown frame type 8-byte varint", vec![0xff, 0xff, 0xff, 0xff, 0xff, 0xff, 0xff, 0xff], &[FENC]));
    v.push(raw("STREAM length beyond packet", vec![0x0a, p_bidi(1) as u8, 0x7f], &[FENC]));
    v.push(raw("truncated varint", vec![0x10, 0xc0], &[FENC]));
    v.push(raw("RESET_STREAM truncated", vec![0x04, 0x08], &[FENC]));
    v.push(raw("non-minimal frame type PING", vec![0x40, 0x01], &[FENC, PV]));
    let mut close = h("CONNECTION_CLOSE app", &[WFrame::Close { app: true, code: 77, frame_type: None, reason: b"x".to_vec() }], &[]);
    close.peer_close = true;
    v.push(close);
    let mut close = h("CONNECTION_CLOSE transport", &[WFrame::Close { app: false, code: 0xa, frame_type: Some(0x08), reason: vec![b'r'; 300] }], &[]);
    close.peer_close = true;
    v.push(close);
    v
}

/// Frames for Initial / Handshake space
pub fn early_alphabet() -> Vec<Hostile> {
    vec![
        h("PING", &[WFrame::Ping], &[]),
        // data at an encryption level the victim has already moved past is a PROTOCOL_VIOLATION
        // (RFC 9001 §4.1.3), otherwise the buffer bound applies
        h("CRYPTO far offset", &[WFrame::Crypto { off: 1 << 30, data: vec![0; 1] }], &[CRYPTOBUF, PV]),
        h("CRYPTO gap", &[WFrame::Crypto { off: 60_000, data: vec![0; 1] }], &[CRYPTOBUF, PV]),
        h("ACK of unsent", &[WFrame::Ack(wire::AckF { largest: 1_000_000, delay: 0, ranges: vec![(1_000_000, 1_000_000)], ecn: None })], &[PV]),
        h("STREAM in early space", &[WFrame::Stream { id: 0, off: 0, fin: false, data: vec![1; 5], has_len: true }], &[PV]),
        h("HANDSHAKE_DONE in early space", &[WFrame::HandshakeDone], &[PV]),
        h("NEW_CONNECTION_ID in early space", &[WFrame::NewConnectionId { seq: 1, retire_prior_to: 0, cid: vec![1; 8], token: [0; 16] }], &[PV]),
        h("MAX_DATA in early space", &[WFrame::MaxData(5)], &[PV]),
        h("PATH_CHALLENGE in early space", &[WFrame::PathChallenge(5)], &[PV]),
        h("DATAGRAM in early space", &[WFrame::Datagram { data: vec![1; 5], has_len: true }], &[PV]),
        raw("unknown frame", vec![0x21, 0, 0], &[FENC]),
        raw("garbage mtls message", { let mut p = vec![]; wire::encode_frame(&WFrame::Crypto { off: 0, data: vec![9, 0, 0, 1, 0] }, &mut p); p }, &[PV, 0x100, 0x150]),
        Hostile { peer_close: true, ..h("CONNECTION_CLOSE transport", &[WFrame::Close { app: false, code: 0x2, frame_type: Some(0), reason: vec![] }], &[]) },
    ]
}

#[derive(Clone, Debug, PartialEq, Eq, Hash, PartialOrd, Ord)]
pub enum VState {
    HandshakeInitial,
    HandshakeHs,
    Established,
    MidTransfer,
    LocallyClosed,
}

#[derive(Clone, Debug)]
pub struct FCase {
    pub vs: bool,
    pub state: VState,
    pub l: LCfg,
    pub frames: Vec<usize>,
    pub repeat: u32,
    pub early: bool,
}

pub struct FOut {
    pub lost_codes: Vec<u64>,
    pub lost_other: Vec<String>,
    pub wire_close_codes: Vec<u64>,
    pub steps: u64,
    pub other_ok: bool,
    pub applicable: bool,
    pub trace: u64,
    pub live_after: usize,
    /// worst reassembly buffer of the victim: (allocated estimate, distinct outstanding upper bound, chunks)
    pub mem_worst: (usize, u64, usize),
}

/// Build the three-node world: node 0 server, node 1 client, node 2 the bystander peer.
fn world(base: Instant, cfg: &PairCfg, vs: bool, wl: Wl) -> (StdPair, ConnectionHandle) {
    let (cp, sp) = plans(wl, ReadMode::default());
    let sp2 = sp.clone();
    let mut p: StdPair = Pair::new(base, cfg, StdApp::new(Side::Client, cp), Box::new(move |_, _| StdApp::new(Side::Server, sp2.clone())));
    let (cp1, _) = plans(Wl::W1, ReadMode::default());
    let other = if vs {
        // second client endpoint connecting to the victim server
        let n = p.w.add_node(5, cfg.cid_len, None, None, |_| {});
        let cc = client_config(cfg, Arc::new(crate::mtls::KeyLog::default()), 0xc7);
        let ch = p.w.connect(n, SERVER, cc, StdApp::new(Side::Client, cp1));
        p.w.settle_conn(n, ch);
        ch
    } else {
        // second server; the victim client endpoint opens a second connection to it
        let kl = Arc::new(crate::mtls::KeyLog::default());
        let sc = server_config(cfg, kl.clone(), p.w.sim_time.clone());
        let n = p.w.add_node(6, cfg.cid_len, None, Some(Arc::new(sc)), |_| {});
        let cc = client_config(cfg, kl, 0xc8);
        let ch = p.w.connect(CLIENT, n, cc, StdApp::new(Side::Client, cp1));
        p.w.settle_conn(CLIENT, ch);
        ch
    };
    (p, other)
}

/// A peer that talks without ever acknowledging: `n` ack-eliciting packets (PING), one at a time, so
/// that the victim answers with thousands of ACK-only packets nobody acknowledges; then the peer
/// acknowledges the victim's newest packets / all of them / nothing, and goes on talking.
/// Returns (ACK-only packets the victim sent, victim still alive).
pub fn monologue(base: Instant, vs: bool, n: usize, ack_mode: u8, quiet: bool) -> Result<(u64, bool), String> {
    guarded(|| {
        let mut cfg = lcfg(&LCfg::Default);
        if quiet {
            // the victim has nothing ack-eliciting of its own to send (no MTU probes): its ACK-only
            // packets form one uninterrupted run
            cfg.client.mtud = crate::sim::Mtud::Off;
            cfg.server.mtud = crate::sim::Mtud::Off;
        }
        let (mut p, _) = world(base, &cfg, vs, Wl::W1);
        let victim = if vs { SERVER } else { CLIENT };
        let puppet_node = 1 - victim;
        let mut g = 0;
        while g < 3000 && !workload_done(&p) {
            g += 1;
            if !p.w.step() {
                break;
            }
        }
        let vch = if vs { p.sch() } else { Some(p.cch) };
        let (Some(vch), Some(mut pup)) = (vch, puppet_for(&p, if vs { Side::Client } else { Side::Server })) else { return (0, true) };
        p.w.deaf[puppet_node] = true;
        p.w.blackhole[puppet_node] = true;
        p.w.net.retain(|f| f.src != p.w.nodes[puppet_node].addr && f.dst != p.w.nodes[puppet_node].addr);
        let (src, dst) = (p.w.nodes[puppet_node].addr, p.w.nodes[victim].addr);
        let rec_start = p.w.recs.len();
        let talk = |p: &mut StdPair, pup: &mut Puppet, k: usize| {
            for _ in 0..k {
                let d = pup.packet(2, &[WFrame::Ping]);
                p.w.inject(src, dst, d, Duration::from_micros(200));
                let until = p.w.t + Duration::from_micros(400);
                let mut m = 0;
                while m < 50 {
                    match p.w.next_event() {
                        Some((at, _)) if at <= until => {
                            p.w.step();
                            m += 1;
                        }
                        _ => break,
                    }
                }
                p.w.t = p.w.t.max(until);
            }
        };
        let pcl = p.w.nodes[puppet_node].cid_len;
        // (packet numbers are reconstructed from the truncated form on the wire, in emission order)
        let victim_pns = |p: &StdPair, from: usize| -> (std::collections::BTreeSet<u64>, u64) {
            let mut largest: Option<u64> = None;
            let mut pns = std::collections::BTreeSet::new();
            let mut ack_only = 0u64;
            for (i, r) in p.w.recs.iter().enumerate() {
                if let Rec::Emit { node, data, ch: Some(_), .. } = r {
                    if *node != victim {
                        continue;
                    }
                    for (h, fr) in decode(data, pcl) {
                        if h.ty != wire::PType::Short {
                            continue;
                        }
                        let win = 1u64 << (8 * h.pn_len as u32);
                        let exp = largest.map_or(h.pn_trunc, |l| l + 1);
                        let mut full = (exp & !(win - 1)) | h.pn_trunc;
                        if full + win / 2 <= exp {
                            full += win;
                        } else if full > exp + win / 2 && full >= win {
                            full -= win;
                        }
                        largest = Some(largest.map_or(full, |l| l.max(full)));
                        if i >= from {
                            pns.insert(full);
                            if !fr.is_empty() && fr.iter().all(|f| matches!(f, WFrame::Ack(_) | WFrame::Padding(_))) {
                                ack_only += 1;
                            }
                        }
                    }
                }
            }
            (pns, ack_only)
        };
        let ack_of = |chosen: Vec<u64>| -> Option<WFrame> {
            let mut ranges: Vec<(u64, u64)> = vec![];
            for pn in &chosen {
                match ranges.last_mut() {
                    Some((lo, _)) if *lo == pn + 1 => *lo = *pn,
                    _ => ranges.push((*pn, *pn)),
                }
            }
            chosen.first().map(|l| WFrame::Ack(wire::AckF { largest: *l, delay: 0, ranges, ecn: None }))
        };
        if quiet {
            // everything the victim has outstanding is acknowledged first: no probe timeouts of its own
            let (all, _) = victim_pns(&p, 0);
            if let Some(f) = ack_of(all.iter().rev().copied().collect()) {
                let d = pup.packet(2, &[f]);
                p.w.inject(src, dst, d, Duration::from_micros(200));
            }
        }
        talk(&mut p, &mut pup, n);
        // the victim's packet numbers since the puppet took over
        let (pns, ack_only) = victim_pns(&p, rec_start);
        // (the victim may skip packet numbers: only numbers it really used are acknowledged)
        let chosen: Vec<u64> = match ack_mode {
            0 => pns.iter().rev().take(6).copied().collect(),
            1 => pns.iter().rev().copied().collect(),
            _ => vec![],
        };
        if let Some(f) = ack_of(chosen) {
            let d = pup.packet(2, &[f]);
            p.w.inject(src, dst, d, Duration::from_micros(200));
        }
        let (largest, smallest) = (pns.iter().next_back().copied(), pns.iter().next().copied());
        talk(&mut p, &mut pup, n / 2 + 10);
        let alive = p.w.slot(victim, vch).map_or(false, |s| s.lost.is_empty());
        if !alive && std::env::var("VERIF_DEBUG").is_ok() {
            eprintln!("monologue vs={vs} n={n} mode={ack_mode}: lost {:?} largest={largest:?} smallest={smallest:?}", p.w.slot(victim, vch).map(|s| s.lost.clone()));
        }
        (ack_only, alive)
    })
}

pub fn run_frames(base: Instant, c: &FCase, alpha: &[Hostile], dump: bool) -> Result<FOut, String> {
    guarded(|| {
        let cfg = lcfg(&c.l);
        let wl = if c.state == VState::MidTransfer { Wl::W6 } else { Wl::W1 };
        let (mut p, other_ch) = world(base, &cfg, c.vs, wl);
        let victim = if c.vs { SERVER } else { CLIENT };
        let puppet_node = 1 - victim;
        // reach the state
        let mut guard = 0;
        loop {
            guard += 1;
            let vch = if c.vs { p.sch() } else { Some(p.cch) };
            let reached = match c.state {
                VState::HandshakeInitial => {
                    if c.vs { vch.is_some() } else { false || p.w.steps >= 1 }
                }
                VState::HandshakeHs => vch.and_then(|ch| p.w.slot(victim, ch)).map_or(false, |s| s.conn.verif_probe().spaces[1].has_keys && s.conn.is_handshaking()),
                VState::Established | VState::LocallyClosed => workload_done(&p),
                VState::MidTransfer => p.w.steps >= 34,
            };
            if reached || guard > 3000 {
                break;
            }
            if !p.w.step() {
                break;
            }
        }
        let vch = if c.vs { p.sch() } else { Some(p.cch) };
        let Some(vch) = vch else {
            return FOut { lost_codes: vec![], lost_other: vec![], wire_close_codes: vec![], steps: 0, other_ok: true, applicable: false, trace: 0, live_after: 0, mem_worst: (0, 0, 0) };
        };
        if c.state == VState::LocallyClosed {
            let now = p.w.now();
            if let Some(s) = p.w.nodes[victim].conns.get_mut(&vch) {
                s.conn.close(now, proto::VarInt::from_u32(1), bytes::Bytes::new());
            }
            p.w.settle_conn(victim, vch);
        }
        let Some(mut pup) = puppet_for(&p, if c.vs { Side::Client } else { Side::Server }) else {
            return FOut { lost_codes: vec![], lost_other: vec![], wire_close_codes: vec![], steps: 0, other_ok: true, applicable: false, trace: 0, live_after: 0, mem_worst: (0, 0, 0) };
        };
        // freeze the real peer of the victim connection; the puppet speaks in its place
        p.w.deaf[puppet_node] = true;
        p.w.blackhole[puppet_node] = true;
        p.w.net.retain(|f| f.src != p.w.nodes[puppet_node].addr && f.dst != p.w.nodes[puppet_node].addr);
        let rec_start = p.w.recs.len();
        let lost_before = p.w.slot(victim, vch).map_or(0, |s| s.lost.len());
        let src = p.w.nodes[puppet_node].addr;
        let dst = p.w.nodes[victim].addr;
        let space = match c.state {
            VState::HandshakeInitial => 0,
            VState::HandshakeHs => 1,
            _ => 2,
        };
        let steps0 = p.w.steps;
        for r in 0..c.repeat.max(1) {
            let mut payload = vec![];
            for &fi in &c.frames {
                payload.extend_from_slice(&alpha[fi].payload);
            }
            if c.repeat > 1 {
                // make repetitions distinct where the frame has a sequence/offset: append a PING
                // and vary nothing else (identical frames exercise the duplicate paths); resource
                // frames are generated by `resource_frames`
                payload = resource_payload(&alpha[c.frames[0]], r as u64, c.vs);
            }
            let d = pup.packet_raw(space, &payload, if space == 0 { 1200 } else { 0 });
            p.w.inject(src, dst, d, Duration::from_micros(r as u64 * 50));
        }
        let until = p.w.t + Duration::from_secs(3);
        let mut n = 0;
        while n < 20_000 {
            match p.w.next_event() {
                Some((at, _)) if at <= until => {
                    p.w.step();
                    n += 1;
                }
                _ => break,
            }
        }
        if dump {
            let tail: Vec<_> = p.w.recs[rec_start..].to_vec();
            let mut w2 = String::new();
            std::mem::swap(&mut w2, &mut String::new());
            let all = crate::trace::dump(&p.w);
            let lines: Vec<&str> = all.lines().collect();
            let _ = tail;
            for l in lines.iter().skip(lines.len().saturating_sub(60)) {
                println!("{}", &l[..l.len().min(260)]);
            }
        }
        let slot = p.w.slot(victim, vch).unwrap();
        let mem_worst = {
            let pr = slot.conn.verif_probe();
            pr.streams.recv_memory.iter().copied().chain(pr.crypto_memory.iter().copied()).max_by_key(|(a, u, _)| (*a as u64).saturating_sub(*u)).unwrap_or((0, 0, 0))
        };
        let mut lost_codes = vec![];
        let mut lost_other = vec![];
        for e in slot.lost.iter().skip(lost_before) {
            match e {
                ConnectionError::TransportError(t) => lost_codes.push(u64::from(t.code)),
                other => lost_other.push(format!("{other:?}")),
            }
        }
        let mut wire_close_codes = vec![];
        let serial = slot.serial;
        for r in &p.w.recs[rec_start..] {
            if let Rec::Emit { node, serial: Some(s), data, dst, .. } = r {
                if *node == victim && *s == serial {
                    for (_, frames) in decode(data, cid_len_of(&p.w, *dst)) {
                        for f in frames {
                            if let WFrame::Close { app: false, code, .. } = f {
                                wire_close_codes.push(code);
                            }
                        }
                    }
                }
            }
        }
        wire_close_codes.dedup();
        // the bystander connection must complete W1
        let other_node = if c.vs { 2 } else { CLIENT };
        let mut extra = 0;
        let other_done = |p: &StdPair| p.w.slot(other_node, other_ch).map_or(false, |s| s.app.tx_complete() && s.app.obs.lost.is_empty() && s.app.obs.connected);
        while !other_done(&p) && extra < 5000 {
            extra += 1;
            match p.w.next_event() {
                Some((at, _)) if at <= until + Duration::from_secs(60) => {
                    p.w.step();
                }
                _ => break,
            }
        }
        FOut {
            lost_codes,
            lost_other,
            wire_close_codes,
            steps: p.w.steps - steps0,
            other_ok: other_done(&p),
            applicable: true,
            trace: p.w.trace_hash(),
            live_after: crate::alloc::live(),
            mem_worst,
        }
    })
}

/// The r-th repetition of a resource-consuming frame, made distinct where the protocol has a
/// sequence number / offset / stream index
fn resource_payload(hh: &Hostile, r: u64, vs: bool) -> Vec<u8> {
    let p_uni = |i: u64| stream_id(vs, false, i);
    let f = match hh.name.as_str() {
        "NEW_CONNECTION_ID retire all" => vec![WFrame::NewConnectionId { seq: 100 + r, retire_prior_to: 100 + r, cid: { let mut c = vec![0u8; 8]; c[..8].copy_from_slice(&(0xabc0_0000_0000_0000u64 + r).to_be_bytes()); c }, token: [(r % 251) as u8; 16] }],
        "PATH_CHALLENGE x20" => (0..20).map(|i| WFrame::PathChallenge(r * 20 + i)).collect(),
        "STREAM new uni fin" => vec![WFrame::Stream { id: p_uni(r % 90), off: 0, fin: true, data: vec![1; 3], has_len: true }],
        "CRYPTO gap" => vec![WFrame::Crypto { off: 100 + 2 * r, data: vec![0; 1] }],
        "STREAM at window edge" => vec![WFrame::Stream { id: p_uni(1), off: 10 + 2 * r, fin: false, data: vec![1; 1], has_len: true }],
        "DATAGRAM small no-len" => vec![WFrame::Datagram { data: vec![r as u8; 100], has_len: true }],
        "MAX_STREAMS bidi 2^60" => vec![WFrame::MaxStreams { bidi: true, max: 1000 + r }],
        "RETIRE_CONNECTION_ID seq 1" => vec![WFrame::RetireConnectionId(1 + (r % 4))],
        _ => return hh.payload.clone(),
    };
    wire::frames_bytes(&f)
}

const RESOURCE: [&str; 10] = [
    "STREAM large behind gap",
    "CRYPTO large behind gap",
    "NEW_CONNECTION_ID retire all",
    "PATH_CHALLENGE x20",
    "STREAM new uni fin",
    "CRYPTO gap",
    "STREAM at window edge",
    "DATAGRAM small no-len",
    "MAX_STREAMS bidi 2^60",
    "RETIRE_CONNECTION_ID seq 1",
];

fn judge(c: &FCase, alpha: &[Hostile], o: &FOut) -> Vec<(String, String)> {
    let mut v = vec![];
    let hs: Vec<&Hostile> = c.frames.iter().map(|i| &alpha[*i]).collect();
    let names: Vec<&str> = hs.iter().map(|h| h.name.as_str()).collect();
    let mut allowed: Vec<u64> = hs.iter().flat_map(|h| h.allowed.iter().copied()).collect();
    if hs.iter().filter(|h| stream_related(h)).count() >= 2 {
        // two frames touching the same stream can interact (e.g. a reset after a FIN with a
        // different size): the stream error classes are all legitimate then
        allowed.extend_from_slice(&[FSIZE, SSTATE, FLOW, SLIM]);
    }
    let peer_close = hs.iter().any(|h| h.peer_close);
    let role = if c.vs { "server" } else { "client" };
    if !o.other_ok {
        v.push((format!("bystander-connection-disturbed:{role}"), format!("another connection on the same endpoint did not complete after {names:?}")));
    }
    if o.steps > 15_000 {
        v.push((format!("unbounded-activity:{role}"), format!("{} steps of activity within 3 s after {names:?}", o.steps)));
    }
    // what a reassembly buffer holds stays in proportion to the distinct bytes outstanding, however
    // often the peer repeats itself
    let (alloc, uniq, chunks) = o.mem_worst;
    // (a chunk per distinct outstanding byte is within the window's bound; beyond that, chunks are copies)
    if alloc as u64 > 3 * uniq + 65_536 || chunks as u64 > uniq + 1100 {
        v.push((format!("reassembly-memory-unbounded:{role}:{}", names[0]), format!("after {} x {names:?} a reassembly buffer accounts for {alloc} allocated bytes in {chunks} chunks while at most {uniq} distinct bytes are outstanding", c.repeat.max(1))));
    }
    if c.state == VState::LocallyClosed {
        if !o.lost_codes.is_empty() {
            v.push((format!("closed-connection-reports-error:{role}"), format!("a locally closed connection reported transport error {:?} after {names:?}", o.lost_codes)));
        }
        return v;
    }
    if c.repeat > 1 {
        // repetitions: only crash / hang / memory / isolation are judged, plus the error class
        for code in &o.lost_codes {
            if !allowed.contains(code) && ![CIDLIM, PV, FLOW, SLIM, CRYPTOBUF].contains(code) {
                v.push((format!("wrong-error-class:{role}:{}", names[0]), format!("1000 repetitions of {names:?} ended with transport error {code:#x}")));
            }
        }
        return v;
    }
    for code in &o.lost_codes {
        if !allowed.contains(code) {
            let kind = if allowed.is_empty() { "legal-input-kills-connection" } else { "wrong-error-class" };
            v.push((format!("{kind}:{role}:{}", names.join("+")), format!("state {:?} cfg {:?}: {names:?} terminated the connection with transport error {code:#x}, QUIC prescribes {allowed:x?}", c.state, c.l)));
        }
    }
    for code in &o.wire_close_codes {
        if !o.lost_codes.contains(code) && !(peer_close && *code == 0) {
            v.push((format!("close-code-mismatch:{role}"), format!("{names:?}: CONNECTION_CLOSE on the wire carries {code:#x}, the application was told {:?}", o.lost_codes)));
        }
    }
    if !peer_close {
        for e in &o.lost_other {
            v.push((format!("unexpected-loss-kind:{role}"), format!("{names:?}: connection lost with {e}")));
        }
    }
    v
}

// ---------------------------------------------------------------- transport parameters

#[derive(Clone, Debug)]
pub struct TpCase {
    /// true: the hostile parameters are sent BY the client (victim = server)
    pub from_client: bool,
    pub l: LCfg,
    pub name: String,
    pub edit: TpEdit,
}

#[derive(Clone, Debug)]
pub enum TpEdit {
    None,
    Set(u64, Vec<u8>),
    Remove(u64),
    Duplicate(u64),
    Truncate(usize),
    BadLen(u64, i64),
    Append(Vec<u8>),
    Multi(Vec<TpEdit>),
}

pub fn tp_apply(orig: &[u8], e: &TpEdit) -> Vec<u8> {
    let tps = wire::parse_transport_params(orig).unwrap_or_default();
    let enc = |tps: &[(u64, Vec<u8>)]| {
        let mut o = vec![];
        for (id, val) in tps {
            put_var(&mut o, *id);
            put_var(&mut o, val.len() as u64);
            o.extend_from_slice(val);
        }
        o
    };
    match e {
        TpEdit::None => orig.to_vec(),
        TpEdit::Set(id, val) => {
            let mut t: Vec<_> = tps.into_iter().filter(|(i, _)| i != id).collect();
            t.push((*id, val.clone()));
            enc(&t)
        }
        TpEdit::Remove(id) => enc(&tps.into_iter().filter(|(i, _)| i != id).collect::<Vec<_>>()),
        TpEdit::Duplicate(id) => {
            let mut t = tps.clone();
            if let Some(x) = tps.iter().find(|(i, _)| i == id) {
                t.push(x.clone());
            } else {
                t.push((*id, vec![]));
                t.push((*id, vec![]));
            }
            enc(&t)
        }
        TpEdit::Truncate(n) => orig[..(*n).min(orig.len())].to_vec(),
        TpEdit::BadLen(id, delta) => {
            let mut o = vec![];
            for (i, val) in &tps {
                put_var(&mut o, *i);
                let l = if i == id { (val.len() as i64 + delta).max(0) as u64 } else { val.len() as u64 };
                put_var(&mut o, l);
                o.extend_from_slice(val);
            }
            o
        }
        TpEdit::Append(x) => {
            let mut o = orig.to_vec();
            o.extend_from_slice(x);
            o
        }
        TpEdit::Multi(es) => {
            let mut o = orig.to_vec();
            for e in es {
                o = tp_apply(&o, e);
            }
            o
        }
    }
}

pub fn varbytes(v: u64) -> Vec<u8> {
    let mut o = vec![];
    put_var(&mut o, v);
    o
}

/// Independent validity judgement of a transport-parameter encoding (RFC 9000 §7.3, §18.2,
/// ack-frequency draft). `from_client`: who sent it. Returns Err(reason) if QUIC requires
/// TRANSPORT_PARAMETER_ERROR.
fn tp_valid(b: &[u8], from_client: bool) -> Result<(), String> {
    let tps = wire::parse_transport_params(b).map_err(|_| "malformed".to_string())?;
    let mut seen = std::collections::BTreeSet::new();
    for (id, _) in &tps {
        if !seen.insert(*id) {
            return Err(format!("duplicate parameter {id:#x}"));
        }
    }
    let int = |id: u64| -> Result<Option<u64>, String> {
        match tps.iter().find(|(i, _)| *i == id) {
            None => Ok(None),
            Some((_, v)) => {
                let mut r = wire::Rd::new(v);
                let x = r.var().map_err(|_| format!("parameter {id:#x} not a varint"))?;
                if r.left() != 0 {
                    return Err(format!("parameter {id:#x} has trailing bytes"));
                }
                Ok(Some(x))
            }
        }
    };
    for id in [0x01u64, 0x03, 0x04, 0x05, 0x06, 0x07, 0x08, 0x09, 0x0a, 0x0b, 0x0e, 0x20, wire::TP_MIN_ACK_DELAY] {
        int(id)?;
    }
    if let Some(x) = int(0x03)? {
        if x < 1200 {
            return Err("max_udp_payload_size < 1200".into());
        }
    }
    if let Some(x) = int(0x0a)? {
        if x > 20 {
            return Err("ack_delay_exponent > 20".into());
        }
    }
    let mad = int(0x0b)?.unwrap_or(25);
    if mad >= 1 << 14 {
        return Err("max_ack_delay >= 2^14".into());
    }
    if let Some(x) = int(0x0e)? {
        if x < 2 {
            return Err("active_connection_id_limit < 2".into());
        }
    }
    for id in [0x08u64, 0x09] {
        if let Some(x) = int(id)? {
            if x > 1 << 60 {
                return Err("initial_max_streams > 2^60".into());
            }
        }
    }
    if let Some(x) = int(wire::TP_MIN_ACK_DELAY)? {
        if x > mad * 1000 {
            return Err("min_ack_delay > max_ack_delay".into());
        }
    }
    let has = |id: u64| tps.iter().any(|(i, _)| *i == id);
    let len = |id: u64| tps.iter().find(|(i, _)| *i == id).map(|(_, v)| v.len());
    if from_client && (has(0x00) || has(0x02) || has(0x0d) || has(0x10)) {
        return Err("server-only parameter sent by a client".into());
    }
    if let Some(l) = len(0x02) {
        if l != 16 {
            return Err("stateless_reset_token length".into());
        }
    }
    if let Some(l) = len(0x0c) {
        if l != 0 {
            return Err("disable_active_migration with a value".into());
        }
    }
    for id in [0x00u64, 0x0f, 0x10] {
        if let Some(l) = len(id) {
            if l > 20 {
                return Err("connection id longer than 20 bytes".into());
            }
        }
    }
    if let Some((_, v)) = tps.iter().find(|(i, _)| *i == 0x0d) {
        // preferred_address: v4 addr+port (6), v6 addr+port (18), cid length (1), cid, token (16)
        if v.len() < 25 {
            return Err("preferred_address too short".into());
        }
        let cl = v[24] as usize;
        if cl == 0 || cl > 20 || v.len() != 25 + cl + 16 {
            return Err("preferred_address malformed".into());
        }
    }
    if !has(0x0f) {
        return Err("initial_source_connection_id missing".into());
    }
    if !from_client && !has(0x00) {
        return Err("original_destination_connection_id missing".into());
    }
    Ok(())
}

fn tp_cases(l: &LCfg, thorough: bool) -> Vec<TpCase> {
    let mut v = vec![];
    let vals = |bounds: &[u64]| -> Vec<u64> {
        let mut o = vec![0u64, 1, (1 << 62) - 1];
        for b in bounds {
            o.extend_from_slice(&[b.saturating_sub(1), *b, b + 1]);
        }
        o.sort();
        o.dedup();
        o
    };
    let ints: Vec<(u64, &str, Vec<u64>)> = vec![
        (0x01, "max_idle_timeout", vals(&[])),
        (0x03, "max_udp_payload_size", vals(&[1200, 65527])),
        (0x04, "initial_max_data", vals(&[64])),
        (0x05, "initial_max_stream_data_bidi_local", vals(&[64])),
        (0x06, "initial_max_stream_data_bidi_remote", vals(&[64])),
        (0x07, "initial_max_stream_data_uni", vals(&[64])),
        (0x08, "initial_max_streams_bidi", vals(&[1 << 60])),
        (0x09, "initial_max_streams_uni", vals(&[1 << 60])),
        (0x0a, "ack_delay_exponent", vals(&[20])),
        (0x0b, "max_ack_delay", vals(&[1 << 14])),
        (0x0e, "active_connection_id_limit", vals(&[2, 8])),
        (0x20, "max_datagram_frame_size", vals(&[1200, 65535])),
        (wire::TP_MIN_ACK_DELAY, "min_ack_delay", vals(&[1000, 25_000, 100_000, 16_383_000])),
    ];
    for from_client in [true, false] {
        let mut add = |name: String, edit: TpEdit| v.push(TpCase { from_client, l: l.clone(), name, edit });
        add("unchanged".into(), TpEdit::None);
        for (id, n, vs) in &ints {
            for x in vs {
                add(format!("{n}={x}"), TpEdit::Set(*id, varbytes(*x)));
            }
            add(format!("{n} absent"), TpEdit::Remove(*id));
            add(format!("{n} duplicated"), TpEdit::Duplicate(*id));
            add(format!("{n} length+1"), TpEdit::BadLen(*id, 1));
            add(format!("{n} empty value"), TpEdit::Set(*id, vec![]));
        }
        for (mad, minad) in [(25u64, 25_000u64), (100, 26_000), (200, 100_000), (1000, 1_000_000), (16_383, 16_383_000), (16_383, 1)] {
            add(format!("max_ack_delay={mad}ms+min_ack_delay={minad}us"), TpEdit::Multi(vec![TpEdit::Set(0x0b, varbytes(mad)), TpEdit::Set(wire::TP_MIN_ACK_DELAY, varbytes(minad))]));
        }
        add("initial_src_cid absent".into(), TpEdit::Remove(0x0f));
        add("initial_src_cid wrong".into(), TpEdit::Set(0x0f, vec![9; 8]));
        add("initial_src_cid 21 bytes".into(), TpEdit::Set(0x0f, vec![9; 21]));
        add("original_dst_cid set".into(), TpEdit::Set(0x00, vec![9; 8]));
        add("original_dst_cid absent".into(), TpEdit::Remove(0x00));
        add("retry_src_cid set".into(), TpEdit::Set(0x10, vec![9; 8]));
        add("stateless_reset_token set".into(), TpEdit::Set(0x02, vec![7; 16]));
        add("stateless_reset_token 15 bytes".into(), TpEdit::Set(0x02, vec![7; 15]));
        add("preferred_address garbage".into(), TpEdit::Set(0x0d, vec![1; 30]));
        add("preferred_address zero cid".into(), TpEdit::Set(0x0d, { let mut p = vec![0u8; 4 + 2 + 16 + 2]; p.push(0); p.extend_from_slice(&[0; 16]); p }));
        add("disable_active_migration".into(), TpEdit::Set(0x0c, vec![]));
        add("disable_active_migration with value".into(), TpEdit::Set(0x0c, vec![1]));
        add("grease_quic_bit".into(), TpEdit::Set(0x2ab2, vec![]));
        add("unknown reserved parameter".into(), TpEdit::Set(31 * 5 + 27, vec![1, 2, 3]));
        add("unknown huge id".into(), TpEdit::Set((1 << 62) - 1, vec![0; 40]));
        add("trailing garbage byte".into(), TpEdit::Append(vec![0x40]));
        let n = if thorough { 200 } else { 60 };
        for t in 0..n {
            add(format!("truncated to {t} bytes"), TpEdit::Truncate(t));
        }
    }
    v
}

struct TpOut {
    victim_lost_codes: Vec<u64>,
    victim_lost_other: Vec<String>,
    victim_connected: bool,
    sent: Vec<u8>,
    trace: u64,
}

fn run_tp(base: Instant, c: &TpCase) -> Result<TpOut, String> {
    guarded(|| {
        let mut cfg = lcfg(&c.l);
        let sent: Arc<std::sync::Mutex<Vec<u8>>> = Arc::default();
        let s2 = sent.clone();
        let edit = c.edit.clone();
        let ov: crate::mtls::ParamsOverride = Arc::new(move |orig: &[u8]| {
            let o = tp_apply(orig, &edit);
            *s2.lock().unwrap() = o.clone();
            o
        });
        if c.from_client {
            cfg.client_params_override = Some(ov);
        } else {
            cfg.server_params_override = Some(ov);
        }
        let mut p = crate::scen::std_pair(base, &cfg, Wl::W1, ReadMode::default());
        let until = Duration::from_secs(4);
        let mut n = 0;
        while n < 20_000 {
            match p.w.next_event() {
                Some((at, _)) if at <= until => {
                    p.w.step();
                    n += 1;
                }
                _ => break,
            }
        }
        let victim = if c.from_client { SERVER } else { CLIENT };
        let vch = if c.from_client { p.sch() } else { Some(p.cch) };
        let mut codes = vec![];
        let mut other = vec![];
        let mut connected = false;
        if let Some(s) = vch.and_then(|ch| p.w.slot(victim, ch)) {
            connected = s.app.obs.connected;
            for e in &s.lost {
                match e {
                    ConnectionError::TransportError(t) => codes.push(u64::from(t.code)),
                    o => other.push(format!("{o:?}")),
                }
            }
        }
        for e in &p.w.nodes[victim].accept_errors {
            if e.contains("TRANSPORT_PARAMETER_ERROR") {
                codes.push(TPE);
            } else {
                other.push(e.clone());
            }
        }
        let sent = sent.lock().unwrap().clone();
        TpOut { victim_lost_codes: codes, victim_lost_other: other, victim_connected: connected, sent, trace: p.w.trace_hash() }
    })
}

/// Datagrams with syntactically valid headers but every short / inconsistent body length, delivered
/// to live connections (client and server) and to the server endpoint as first packets. Nothing may
/// panic and the honest transfer must still complete afterwards.
fn header_sweep(base: Instant, thorough: bool) -> (u64, Vec<(String, String)>) {
    let mut viol = vec![];
    let mut n = 0u64;
    for cid_len in [8usize, 0, 20] {
        let mut cfg = cfg_by_name("default");
        cfg.cid_len = cid_len;
        let mut p = crate::scen::std_pair_pre(base, &cfg, Wl::W1, ReadMode::default(), |w| w.keep_data = true);
        // reach the established state with some 1-RTT traffic on the wire
        for _ in 0..400 {
            if p.client().app.obs.handshake_confirmed || !p.w.step() {
                break;
            }
        }
        // header templates from genuine traffic: (sender node, first bytes up to and excluding the packet number)
        let mut shorts: Vec<(usize, Vec<u8>)> = vec![];
        let mut longs: Vec<(usize, Vec<u8>)> = vec![];
        for r in &p.w.recs {
            if let Rec::Emit { node, data, dst, .. } = r {
                let peer_cid_len = crate::ledger::cid_len_of(&p.w, *dst);
                if data.is_empty() {
                    continue;
                }
                if data[0] & 0x80 == 0 {
                    if !shorts.iter().any(|(nd, _)| nd == node) {
                        shorts.push((*node, data[..1 + peer_cid_len].to_vec()));
                    }
                } else if data.len() > 7 && longs.iter().filter(|(nd, _)| nd == node).count() < 3 {
                    let dl = data[5] as usize;
                    if data.len() > 6 + dl {
                        let sl = data[6 + dl] as usize;
                        let mut h = data[..(7 + dl + sl).min(data.len())].to_vec();
                        if (data[0] & 0x30) == 0 {
                            h.push(0); // Initial: empty token
                        }
                        if !longs.iter().any(|(nd, x)| nd == node && x[0] & 0x30 == h[0] & 0x30) {
                            longs.push((*node, h));
                        }
                    }
                }
            }
        }
        let addr_of = |p: &StdPair, node: usize| p.w.nodes[node].addr;
        let max_body = if thorough { 80 } else { 44 };
        let mut inject = |p: &mut StdPair, from: usize, d: Vec<u8>| {
            let (src, dst) = (addr_of(p, from), addr_of(p, 1 - from));
            p.w.inject(src, dst, d, Duration::from_micros(1));
            n += 1;
        };
        for (from, h) in shorts.clone() {
            // short header + body of every length (the packet number, payload and tag are whatever)
            for body in 0..=max_body {
                for fill in [0u8, 0xff] {
                    for first_bits in [0x00u8, 0x03, 0x04, 0x20] {
                        let mut d = h.clone();
                        d[0] = (d[0] & 0xc0) | first_bits | 0x40;
                        d.extend(std::iter::repeat(fill).take(body));
                        inject(&mut p, from, d);
                    }
                }
            }
        }
        for (from, h) in longs.clone() {
            // long header + Length field L, followed by exactly L bytes, fewer, or more (coalesced garbage up to 1200)
            for l in 0..=max_body as u64 {
                for shape in 0..4 {
                    let mut d = h.clone();
                    crate::wire::put_var(&mut d, l);
                    let have = match shape { 0 => l as usize, 1 => (l as usize).saturating_sub(1), 2 => l as usize + 7, _ => 0 };
                    d.extend(std::iter::repeat(0xa5u8).take(have));
                    if shape == 3 {
                        d.extend(std::iter::repeat(0x5au8).take(l as usize));
                        d.resize(1200.max(d.len()), 0);
                    }
                    inject(&mut p, from, d);
                }
            }
        }
        // first packets for the server endpoint: fresh DCID, every small Length, padded to 1200
        for l in 0..=max_body as u64 {
            for ty in [0x00u8, 0x10, 0x20, 0x30] {
                let mut d = vec![0xc0 | ty | 0x03];
                d.extend_from_slice(&1u32.to_be_bytes());
                d.push(8);
                d.extend_from_slice(&[0x77, l as u8, ty, 1, 2, 3, 4, 5]);
                d.push(8);
                d.extend_from_slice(&[9; 8]);
                if ty == 0 {
                    d.push(0);
                }
                crate::wire::put_var(&mut d, l);
                d.extend(std::iter::repeat(0x11u8).take(l as usize));
                d.resize(1200, 0);
                let dst = addr_of(&p, SERVER);
                p.w.inject(addr(15), dst, d, Duration::from_micros(1));
                n += 1;
            }
        }
        // let everything be processed, then the honest transfer must still complete
        let done = crate::scen::drive(&mut p, &[], 200_000, Duration::from_secs(120));
        if !done {
            viol.push(("header-sweep-victim-stuck".into(), format!("cid_len {cid_len}: after well-formed-header datagrams with short bodies the honest transfer did not complete: {:?}; {}", crate::scen::completion(&p).into_iter().take(2).collect::<Vec<_>>(), crate::scen::diagnose(&p))));
        }
        for (who, s) in [("client", Some(p.client())), ("server", p.server())] {
            if let Some(s) = s {
                if !s.app.obs.lost.is_empty() {
                    viol.push(("header-sweep-victim-lost".into(), format!("cid_len {cid_len}: {who} lost the connection after unauthenticated datagrams: {:?}", s.app.obs.lost)));
                }
            }
        }
    }
    (n, viol)
}

pub fn main(args: &Args) -> ! {
    if args.replay.is_some() {
        replay(args);
    }
    explore::quiet_panics();
    let base = Instant::now();
    let mut rep = Report::new("C03", args, "fault_enumeration");
    let thorough = args.tier == Tier::Thorough;
    let dl = deadline(if thorough { 1500 } else { 50 });
    rep.rule = "E3 over hostile input delivered to unmodified real endpoints. (b) A puppet peer (the harness, holding the model-TLS keys) replaces one side once an honest pair reached a chosen state and sends correctly protected packets carrying every single hostile frame of an alphabet (all frame types with boundary field values, malformed encodings, unknown types) in Initial / Handshake / 1-RTT space, every ordered pair of frames in 1-RTT (thorough: every ordered triple whose first two frames are individually harmless), and 1000-fold repetitions of the resource-consuming frames, against client and server victims in the states handshaking, established, mid-transfer and locally closed and the local configurations default / ack-frequency / zero-length CIDs / datagrams off / tiny limits. Oracle: no panic, bounded steps, bounded live heap, outcome is either 'unaffected' or a transport error whose code is in the set RFC 9000 prescribes or permits for that frame (harness table), the CONNECTION_CLOSE on the wire carries the same code, and a bystander connection on the same endpoint completes its transfer. (c) Every transport-parameter edit of a list (each integer parameter at 0/1/boundaries/2^62-1, absent, duplicated, wrong length, empty; CID echo parameters absent/wrong/unexpected; server-only parameters; unknown ids; truncation at every byte) in both directions: TRANSPORT_PARAMETER_ERROR iff the harness's own RFC validation rejects the encoding, never a panic. (a) arbitrary short byte strings; the handshake datagrams damaged in transit (original lost, mutated copy arrives, the sender retransmits into whatever state was left behind) under the no-panic oracle; further byte-level mutations of genuine datagrams are enumerated under C04. Non-trivial = input was delivered to a live victim; distinct = distinct (victim, state, configuration, input) tuples.".into();

    // (a) arbitrary short strings and first-byte x length sweep at both roles
    {
        let cfg = cfg_by_name("default");
        let mut n = 0u64;
        let mut p = crate::scen::std_pair_pre(base, &cfg, Wl::W0, ReadMode::default(), |w| w.blackhole_all_from_start());
        let res = guarded(|| {
            for node in [SERVER, CLIENT] {
                let mut feed = |d: &[u8]| {
                    let now = p.w.now();
                    let mut buf = Vec::new();
                    if let Some(proto::DatagramEvent::NewConnection(inc)) = p.w.nodes[node].ep.handle(now, addr(14), None, None, BytesMut::from(d), &mut buf) {
                        p.w.nodes[node].ep.ignore(inc);
                    }
                    n += 1;
                };
                for a in 0..=255u8 {
                    feed(&[a]);
                    for b in [0u8, 1, 0x40, 0x7f, 0x80, 0xc0, 0xff] {
                        feed(&[a, b]);
                        for c in [0u8, 1, 8, 20, 21, 0xff] {
                            feed(&[a, b, c]);
                        }
                    }
                    for len in [1usize, 5, 6, 7, 21, 22, 23, 50, 1199, 1200, 1201] {
                        for fill in [0u8, 0xff, 0x14, 0x08] {
                            let mut d = vec![fill; len];
                            d[0] = a;
                            feed(&d);
                            // plausible long header: version 1, cid lengths from fill
                            if len > 6 {
                                d[1..5].copy_from_slice(&1u32.to_be_bytes());
                                feed(&d);
                                d[1..5].copy_from_slice(&0u32.to_be_bytes());
                                feed(&d);
                            }
                        }
                    }
                }
            }
        });
        rep.evaluations += n;
        if let Err(e) = res {
            rep.violation(Violation { signature: "panic:endpoint-handle-arbitrary-bytes".into(), what: format!("Endpoint::handle panicked on a short arbitrary datagram: {e}"), replay: json!({"check":"c03","kind":"bytes"}) });
        }
        rep.part("arbitrary_bytes", json!({"datagrams": n}));
    }

    // (a2) well-formed headers around every length boundary, into live connections of both roles
    {
        let r = guarded(|| header_sweep(base, thorough));
        match r {
            Err(e) => rep.violation(Violation { signature: "panic:header-length-sweep".into(), what: format!("panic while a live endpoint processed a datagram with a well-formed header and a short or inconsistent body: {e}"), replay: json!({"check":"c03","kind":"headers"}) }),
            Ok((n, viol)) => {
                rep.evaluations += n;
                rep.part("header_length_sweep", json!({"datagrams": n}));
                for (sig, what) in viol {
                    rep.violation(Violation { signature: sig, what, replay: json!({"check":"c03","kind":"headers"}) });
                }
            }
        }
    }

    // (b) frames
    let lcfgs = [LCfg::Default, LCfg::AckFreq, LCfg::Cid0, LCfg::NoDatagrams, LCfg::Tiny];
    let mut alphas: BTreeMap<(bool, LCfg), Vec<Hostile>> = BTreeMap::new();
    for vs in [true, false] {
        for l in &lcfgs {
            alphas.insert((vs, l.clone()), alphabet(vs, l));
        }
    }
    let early = early_alphabet();
    let mut cases = vec![];
    for vs in [true, false] {
        for l in &lcfgs {
            let a = &alphas[&(vs, l.clone())];
            for st in [VState::Established, VState::MidTransfer, VState::LocallyClosed] {

                for i in 0..a.len() {
                    cases.push(FCase { vs, state: st.clone(), l: l.clone(), frames: vec![i], repeat: 1, early: false });
                }
            }
            {
                for st in [VState::HandshakeInitial, VState::HandshakeHs] {
                    for i in 0..early.len() {
                        cases.push(FCase { vs, state: st.clone(), l: l.clone(), frames: vec![i], repeat: 1, early: true });
                    }
                }
            }
            // ordered pairs
            if *l == LCfg::Default || thorough {
                for i in 0..a.len() {
                    for j in 0..a.len() {
                        if is_raw(&a[i]) {
                            continue;
                        }
                        cases.push(FCase { vs, state: VState::Established, l: l.clone(), frames: vec![i, j], repeat: 1, early: false });
                    }
                }
            }
        }
    }
    let nframes = cases.len();
    let (res, capped) = e3(cases, dl, |c| {
        let a = if c.early { &early } else { &alphas[&(c.vs, c.l.clone())] };
        run_frames(base, c, a, false)
    });
    rep.exhaustive &= !capped;
    // thorough: ordered triples whose first two frames are individually harmless to an established
    // victim (a frame that ends the connection makes whatever follows it moot)
    let mut res = res;
    let mut ntriples = 0usize;
    if thorough {
        let mut benign: BTreeMap<(bool, LCfg), Vec<usize>> = BTreeMap::new();
        for (c, r) in &res {
            if c.frames.len() == 1 && c.repeat == 1 && !c.early && c.state == VState::Established {
                if let Ok(o) = r {
                    let a = &alphas[&(c.vs, c.l.clone())];
                    if o.applicable && o.lost_codes.is_empty() && !is_raw(&a[c.frames[0]]) {
                        benign.entry((c.vs, c.l.clone())).or_default().push(c.frames[0]);
                    }
                }
            }
        }
        let mut t = vec![];
        for ((vs, l), b) in &benign {
            if *l != LCfg::Default && *l != LCfg::Tiny {
                continue;
            }
            let n = alphas[&(*vs, l.clone())].len();
            for &i in b {
                for &j in b {
                    for k in 0..n {
                        t.push(FCase { vs: *vs, state: VState::Established, l: l.clone(), frames: vec![i, j, k], repeat: 1, early: false });
                    }
                }
            }
        }
        ntriples = t.len();
        let (res3, capped3) = e3(t, dl, |c| run_frames(base, c, &alphas[&(c.vs, c.l.clone())], false));
        rep.exhaustive &= !capped3;
        res.extend(res3);
    }
    let mut killed = 0u64;
    for (c, r) in &res {
        rep.evaluations += 1;
        let a = if c.early { &early } else { &alphas[&(c.vs, c.l.clone())] };
        let names: Vec<&str> = c.frames.iter().map(|i| a[*i].name.as_str()).collect();
        let rj = json!({"check":"c03","kind":"frames","vs":c.vs,"state":format!("{:?}",c.state),"cfg":format!("{:?}",c.l),"frames":names,"repeat":c.repeat,"early":c.early});
        match r {
            Err(e) => rep.violation(Violation { signature: format!("panic:{}", names.join("+")), what: format!("victim={} state={:?} cfg={:?} frames={names:?}: panic: {e}", if c.vs { "server" } else { "client" }, c.state, c.l), replay: rj }),
            Ok(o) => {
                if !o.applicable {
                    continue;
                }
                let mut hh = std::collections::hash_map::DefaultHasher::new();
                (c.vs, &c.state, &c.l, &names).hash(&mut hh);
                rep.distinct.insert(hh.finish());
                if !o.lost_codes.is_empty() {
                    killed += 1;
                }
                for (sig, what) in judge(c, a, o) {
                    rep.violation(Violation { signature: sig, what, replay: rj.clone() });
                }
            }
        }
    }
    rep.part("hostile_frames", json!({"cases": nframes + ntriples, "ordered_triples": ntriples, "executed": res.len(), "alphabet_1rtt": alphas[&(true, LCfg::Default)].len(), "alphabet_early": early.len(), "terminated_with_transport_error": killed, "capped": capped}));
    if killed == 0 {
        machinery("vacuity guard: no hostile frame ever terminated a connection — the puppet's packets are not being accepted");
    }
    // (a2) handshake datagrams damaged in transit: whatever state a damaged first flight leaves behind
    // in the endpoint (half-created attempts, routing entries) must survive the retransmission
    {
        let (n, panics, capped) = crate::checks::c04::damaged_handshake_panics(base, thorough, dl);
        rep.evaluations += n;
        rep.exhaustive &= !capped;
        for (what, replay) in panics {
            rep.violation(Violation { signature: "panic:damaged-handshake-datagram".into(), what, replay });
        }
        rep.part("damaged_handshake_datagrams", json!({"cases": n, "capped": capped}));
    }
    // a peer that never acknowledges: thousands of ACK-only packets stay outstanding at the victim
    {
        let mut cases = vec![];
        for vs in [true, false] {
            for n in if thorough { vec![1100usize, 2500, 6000, 12_000] } else { vec![2500usize, 6000] } {
                for mode in [0u8, 1, 2] {
                    for quiet in [true, false] {
                        cases.push((vs, n, mode, quiet));
                    }
                }
            }
        }
        let ncases = cases.len();
        let (res, capped) = e3(cases, dl, |(vs, n, mode, quiet)| monologue(base, *vs, *n, *mode, *quiet));
        rep.exhaustive &= !capped;
        let mut most = 0u64;
        for ((vs, n, mode, quiet), r) in &res {
            rep.evaluations += 1;
            let rj = json!({"check":"c03","kind":"monologue","vs":vs,"n":n,"mode":mode,"quiet":quiet});
            match r {
                Err(e) => rep.violation(Violation { signature: "panic:unacknowledged-monologue".into(), what: format!("victim={} : the peer sent {n} PING packets without acknowledging anything, then acknowledged {} and went on: panic: {e}", if *vs { "server" } else { "client" }, ["the victim's newest packets", "everything", "nothing"][*mode as usize]), replay: rj }),
                Ok((ao, alive)) => {
                    most = most.max(*ao);
                    let mut hh = std::collections::hash_map::DefaultHasher::new();
                    (vs, n, mode, quiet, "monologue").hash(&mut hh);
                    rep.distinct.insert(hh.finish());
                    if !alive {
                        rep.violation(Violation { signature: "lost:unacknowledged-monologue".into(), what: format!("victim={}: a peer that sends {n} PINGs and acknowledges late is within the protocol, yet the connection was lost", if *vs { "server" } else { "client" }), replay: rj });
                    }
                }
            }
        }
        if most < 2000 {
            machinery("vacuity guard: the never-acknowledging peer drew fewer than 2000 ACK-only packets");
        }
        rep.part("unacknowledged_monologues", json!({"cases": ncases, "most_ack_only_packets_outstanding": most, "capped": capped}));
    }
    // repetitions, sequential so that the heap counter is meaningful
    let mut rep_cases = 0;
    for vs in [true, false] {
        for l in [LCfg::Default, LCfg::Tiny] {
            if !thorough && l == LCfg::Tiny && !vs {
                continue;
            }
            let a = &alphas[&(vs, l.clone())];
            for name in RESOURCE {
                let Some(i) = a.iter().position(|x| x.name == name) else { continue };
                let before = crate::alloc::live();
                let c = FCase { vs, state: VState::Established, l: l.clone(), frames: vec![i], repeat: if thorough { 3000 } else { 1000 }, early: false };
                let r = run_frames(base, &c, a, false);
                rep.evaluations += 1;
                rep_cases += 1;
                let rj = json!({"check":"c03","kind":"frames","vs":vs,"state":"Established","cfg":format!("{l:?}"),"frames":[name],"repeat":c.repeat,"early":false});
                match r {
                    Err(e) => rep.violation(Violation { signature: format!("panic:repeat:{name}"), what: format!("{} repetitions of {name}: panic: {e}", c.repeat), replay: rj }),
                    Ok(o) => {
                        let mut hh = std::collections::hash_map::DefaultHasher::new();
                        (vs, &l, name, "repeat").hash(&mut hh);
                        rep.distinct.insert(hh.finish());
                        let grown = crate::alloc::peak_since(before);
                        if grown > 256 << 20 {
                            rep.violation(Violation { signature: format!("memory-growth:{name}"), what: format!("{} repetitions of {name} grew the live heap by {} MB", c.repeat, grown >> 20), replay: rj.clone() });
                        }
                        for (sig, what) in judge(&c, a, &o) {
                            rep.violation(Violation { signature: sig, what, replay: rj.clone() });
                        }
                    }
                }
            }
        }
    }
    rep.part("repetitions", json!({"cases": rep_cases}));

    // (c) transport parameters
    let mut tcases = vec![];
    for l in &lcfgs {
        tcases.extend(tp_cases(l, thorough));
    }
    let ntp = tcases.len();
    let (tres, capped) = e3(tcases, dl, |c| run_tp(base, c));
    rep.exhaustive &= !capped;
    let mut rejected = 0u64;
    let mut accepted_invalid: Vec<String> = vec![];
    for (c, r) in &tres {
        rep.evaluations += 1;
        let rj = json!({"check":"c03","kind":"tp","from_client":c.from_client,"cfg":format!("{:?}",c.l),"name":c.name});
        let who = if c.from_client { "server" } else { "client" };
        match r {
            Err(e) => rep.violation(Violation { signature: format!("panic:transport-parameter:{}", c.name.split('=').next().unwrap_or(&c.name)), what: format!("victim={who} cfg={:?} hostile transport parameters '{}': panic: {e}", c.l, c.name), replay: rj }),
            Ok(o) => {
                let mut hh = std::collections::hash_map::DefaultHasher::new();
                (c.from_client, &c.l, &c.name).hash(&mut hh);
                rep.distinct.insert(hh.finish());
                let mut verdict = tp_valid(&o.sent, c.from_client);
                // the CID echo parameters are judged against the CIDs actually used, which the
                // validator cannot see: edits that set them to a foreign value are invalid
                if ["initial_src_cid wrong", "original_dst_cid set", "retry_src_cid set"].contains(&c.name.as_str()) && verdict.is_ok() {
                    verdict = Err("connection ID echo does not match the CIDs in use".into());
                }
                let may_only = matches!(&verdict, Err(w) if w.starts_with("duplicate"));
                let got_tpe = o.victim_lost_codes.contains(&TPE);
                if got_tpe {
                    rejected += 1;
                }
                match verdict {
                    Err(why) => {
                        // the property lets an endpoint ignore bad input; acceptance of an
                        // invalid encoding is counted, not flagged
                        if o.victim_connected && o.victim_lost_codes.is_empty() && !may_only {
                            accepted_invalid.push(format!("{who}:{}:{why}", c.name));
                        }
                        for code in &o.victim_lost_codes {
                            if *code != TPE && *code != FENC && *code != PV {
                                rep.violation(Violation { signature: format!("wrong-error-class:transport-parameters:{who}"), what: format!("cfg={:?} '{}' ({why}) ended with {code:#x}", c.l, c.name), replay: rj.clone() });
                            }
                        }
                    }
                    Ok(()) => {
                        for code in &o.victim_lost_codes {
                            rep.violation(Violation { signature: format!("valid-transport-parameters-rejected:{who}"), what: format!("cfg={:?} '{}' is a valid encoding but the {who} failed with transport error {code:#x}", c.l, c.name), replay: rj.clone() });
                        }
                    }
                }
                let _ = (&o.victim_lost_other, o.trace);
            }
        }
    }
    accepted_invalid.sort();
    accepted_invalid.dedup();
    rep.part("transport_parameters", json!({"cases": ntp, "executed": tres.len(), "rejected_with_transport_parameter_error": rejected, "invalid_but_accepted_informational": accepted_invalid, "capped": capped}));
    if rejected == 0 {
        machinery("vacuity guard: no transport-parameter edit was ever rejected");
    }
    rep.sample(json!({"kind":"frames","victim":"server","state":"Established","cfg":"Tiny","frames":["STREAM beyond stream window"],"meaning":"after an honest handshake and transfer the client is frozen and the harness sends, protected with the client's 1-RTT key, a STREAM frame one byte beyond the 600-byte stream window; the server must close with FLOW_CONTROL_ERROR (or ignore), the second client's connection must finish"}));
    rep.sample(json!({"kind":"tp","from_client":true,"cfg":"AckFreq","name":"min_ack_delay=100000","meaning":"the client's transport parameters are re-encoded with min_ack_delay = 100 ms before the model TLS sends them; the server (ack-frequency enabled locally) must neither panic nor misbehave"}));
    rep.assumptions = vec![
        "model TLS: the puppet holds the real keys, so its packets are authentic by construction".into(),
        "the property allows a hostile input to be ignored; the error-class table therefore only constrains the code when the victim does terminate".into(),
        "live-heap bound after 1000 repetitions is a fixed threshold (256 MB), not a proof of boundedness".into(),
    ];
    rep.finish()
}

fn replay(args: &Args) -> ! {
    let path = args.replay.as_ref().unwrap();
    let v: Value = serde_json::from_str(&std::fs::read_to_string(path).unwrap_or_else(|e| machinery(&format!("{e}")))).unwrap_or_else(|e| machinery(&format!("{e}")));
    let r = &v["replay"];
    let parse_l = |s: &str| match s {
        "AckFreq" => LCfg::AckFreq,
        "Cid0" => LCfg::Cid0,
        "NoDatagrams" => LCfg::NoDatagrams,
        "Tiny" => LCfg::Tiny,
        _ => LCfg::Default,
    };
    let base = Instant::now();
    match r["kind"].as_str().unwrap_or("") {
        "replace" => crate::checks::c04::replay(args),
        "frames" => {
            let vs = r["vs"].as_bool().unwrap();
            let l = parse_l(r["cfg"].as_str().unwrap_or(""));
            let early = r["early"].as_bool().unwrap_or(false);
            let a = if early { early_alphabet() } else { alphabet(vs, &l) };
            let frames: Vec<usize> = r["frames"].as_array().unwrap().iter().map(|n| a.iter().position(|x| x.name == n.as_str().unwrap()).unwrap()).collect();
            let state = match r["state"].as_str().unwrap_or("") {
                "HandshakeInitial" => VState::HandshakeInitial,
                "HandshakeHs" => VState::HandshakeHs,
                "MidTransfer" => VState::MidTransfer,
                "LocallyClosed" => VState::LocallyClosed,
                _ => VState::Established,
            };
            let c = FCase { vs, state, l, frames, repeat: r["repeat"].as_u64().unwrap_or(1) as u32, early };
            match run_frames(base, &c, &a, true) {
                Err(e) => println!("PANIC: {e}"),
                Ok(o) => {
                    println!("lost_codes={:x?} lost_other={:?} wire_close_codes={:x?} steps={} bystander_ok={} applicable={}", o.lost_codes, o.lost_other, o.wire_close_codes, o.steps, o.other_ok, o.applicable);
                    println!("judgement: {:?}", judge(&c, &a, &o));
                }
            }
        }
        "tp" => {
            let l = parse_l(r["cfg"].as_str().unwrap_or(""));
            let name = r["name"].as_str().unwrap();
            let fc = r["from_client"].as_bool().unwrap();
            let c = tp_cases(&l, true).into_iter().find(|c| c.name == name && c.from_client == fc).unwrap_or_else(|| machinery("unknown tp case"));
            std::panic::set_hook(Box::new(|i| println!("panic: {i}")));
            match run_tp(base, &c) {
                Err(e) => println!("PANIC: {e}"),
                Ok(o) => println!("sent={} valid={:?} victim_connected={} lost_codes={:x?} other={:?}", crate::trace::hex(&o.sent), tp_valid(&o.sent, fc), o.victim_connected, o.victim_lost_codes, o.victim_lost_other),
            }
        }
        k => println!("unknown kind {k}"),
    }
    std::process::exit(0)
}
