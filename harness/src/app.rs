//! Standard event-driven application used by most checks, with the stream-integrity oracle
//! (C01) built into its receive path.

use std::collections::BTreeMap;

use bytes::Bytes;
use proto::{
    Dir, Event, ReadError, ReadableError, Side, StreamEvent, StreamId, VarInt, WriteError,
};

use crate::sim::{App, AppCx};

/// Byte at offset `off` of stream `sid` (the raw u64 stream id)
pub fn pattern(sid: u64, off: u64) -> u8 {
    (sid.wrapping_mul(131) ^ off.wrapping_mul(7) ^ (off >> 8).wrapping_mul(13) ^ (off >> 16)) as u8
}

pub fn pattern_vec(sid: u64, off: u64, len: usize) -> Vec<u8> {
    (0..len as u64).map(|i| pattern(sid, off + i)).collect()
}

pub fn sid(id: StreamId) -> u64 {
    VarInt::from(id).into_inner()
}

/// Datagram payload: 2 bytes tag, then bytes derived from the tag
pub fn dgram_payload(tag: u16, len: usize) -> Vec<u8> {
    let mut v = Vec::with_capacity(len);
    for i in 0..len {
        v.push(match i {
            0 => (tag >> 8) as u8,
            1 => tag as u8,
            _ => (tag as usize * 31 + i * 17) as u8,
        });
    }
    v
}

#[derive(Debug, Clone, Copy, PartialEq, Eq)]
pub enum End {
    Finish,
    /// Reset with code once `after` bytes have been written
    Reset { after: usize, code: u32 },
    /// Leave open
    Open,
    /// Call finish() only at the n-th later drive call after the last byte was written, so that
    /// the FIN travels in a frame of its own
    FinishLater(u32),
}

#[derive(Debug, Clone)]
pub struct StreamPlan {
    pub dir: Dir,
    pub len: usize,
    pub chunk: usize,
    pub end: End,
}

#[derive(Debug, Clone, Copy, PartialEq, Eq)]
pub struct ReadMode {
    pub ordered: bool,
    pub max_len: usize,
    /// Switch to unordered reads after this many bytes of a stream were obtained
    pub switch_unordered_after: Option<u64>,
}

impl Default for ReadMode {
    fn default() -> Self {
        Self { ordered: true, max_len: usize::MAX, switch_unordered_after: None }
    }
}

#[derive(Debug, Clone, Default)]
pub struct Plan {
    pub streams: Vec<StreamPlan>,
    /// How many of `streams` may be in progress at once (0 = all)
    pub concurrent: usize,
    /// For serial request/response: wait until the response on a bidi stream is fully read
    pub await_response: bool,
    /// Echo on incoming bidi streams: respond with `echo_len` patterned bytes and finish
    pub echo_len: Option<usize>,
    pub read: ReadMode,
    /// Stop the n-th incoming stream after this many bytes with this code
    pub stop: Option<(usize, u64, u32)>,
    /// Datagram sizes to send (tagged in order)
    pub datagrams: Vec<usize>,
    /// Send before the handshake completes (0-RTT)
    pub early: bool,
    /// XOR-ed into every stream byte (and into the datagram tag's high byte) written before the
    /// handshake completes, so that leaked early data is distinguishable (rejection cases)
    pub early_salt: u8,
    /// Do not read at all (receiver stalls)
    pub no_read: bool,
    /// writes go through `write_chunks` with the data split into three chunks (vectored API)
    pub vectored: bool,
    /// Answer a Stopped event with reset() (as an application that abandons the stream does), so
    /// that the stream is released and its slot can be granted again
    pub reset_on_stopped: bool,
    /// Reset the stream of plan index .0 with code .2 at the first drive call that finds at least
    /// .1 bytes in flight (or at the third drive call after Connected)
    pub late_reset: Option<(usize, u64, u32)>,
    /// Audit API-level flow-control answers against the probe after every write/open (C05)
    pub audit: bool,
    /// every reset() that succeeded is repeated at once (a redundant call, as a Drop impl following
    /// an explicit reset makes)
    pub reset_twice: bool,
}

#[derive(Debug, Clone, Default)]
pub struct RxObs {
    /// Chunks obtained: (offset, len), in the order obtained
    pub chunks: Vec<(u64, u64)>,
    pub bytes: u64,
    pub fin: bool,
    pub reset: Option<u64>,
    pub stopped_by_us: bool,
    pub unordered: bool,
    pub closed_err: bool,
}

#[derive(Debug, Clone, Default)]
pub struct TxObs {
    pub plan_idx: Option<usize>,
    pub written: u64,
    pub target: u64,
    pub finish_called: bool,
    pub reset_called: Option<u32>,
    pub finished_events: u32,
    pub stopped_events: Vec<u64>,
    pub blocked: bool,
    pub done_writing: bool,
    pub closed_err: bool,
}

#[derive(Debug, Clone, Default)]
pub struct Obs {
    pub connected: bool,
    pub handshake_confirmed: bool,
    pub lost: Vec<String>,
    pub rx: BTreeMap<u64, RxObs>,
    pub tx: BTreeMap<u64, TxObs>,
    pub dgrams_rx: Vec<Vec<u8>>,
    pub dgrams_tx: Vec<(u16, usize, String)>,
    pub violations: Vec<String>,
    pub events_after_lost: u32,
    /// 0-RTT: the workload was started before the handshake completed
    pub started_early: bool,
    /// Connection::accepted_0rtt() when Connected was seen
    pub accepted_0rtt: Option<bool>,
    /// What was sent early and then rolled back because the server rejected 0-RTT
    pub early_tx: BTreeMap<u64, TxObs>,
    pub early_dgrams_tx: Vec<(u16, usize, String)>,
    /// Stream ids handed out by open(), in order, after the last (re)start
    pub opened_order: Vec<u64>,
    /// Client, when Connected is seen (after a 0-RTT rejection was processed): peer's connection
    /// limit, peer's stream limits, streams opened, data_sent, unacked_data, queued datagrams
    pub at_connected: Option<(u64, [u64; 2], [u64; 2], u64, u64, usize)>,
}

pub struct StdApp {
    pub side: Side,
    pub plan: Plan,
    pub obs: Obs,
    next_plan: usize,
    active: Vec<StreamId>,
    incoming: Vec<StreamId>,
    readable: Vec<StreamId>,
    open_blocked: [bool; 2],
    started: bool,
    dgram_next: usize,
    dgram_blocked: bool,
    echo: BTreeMap<u64, (usize, usize)>, // sid -> (sent, total)
    salt: u8,
    drives: u32,
    drive_no: u32,
    finish_due: Vec<(StreamId, u32)>,
}

impl StdApp {
    pub fn new(side: Side, plan: Plan) -> Self {
        Self {
            side,
            plan,
            obs: Obs::default(),
            next_plan: 0,
            active: vec![],
            incoming: vec![],
            readable: vec![],
            open_blocked: [false; 2],
            started: false,
            dgram_next: 0,
            dgram_blocked: false,
            echo: BTreeMap::new(),
            salt: 0,
            drives: 0,
            drive_no: 0,
            finish_due: vec![],
        }
    }

    fn violation(&mut self, s: String) {
        if self.obs.violations.len() < 16 {
            self.obs.violations.push(s);
        }
    }

    /// All planned sends are complete from the sender's point of view
    pub fn tx_complete(&self) -> bool {
        self.next_plan == self.plan.streams.len()
            && self.obs.tx.values().all(|t| match t.plan_idx {
                None => t.finished_events > 0 || !t.stopped_events.is_empty() || t.closed_err,
                Some(i) => match self.plan.streams[i].end {
                    End::Finish | End::FinishLater(_) => t.finished_events > 0 || !t.stopped_events.is_empty(),
                    End::Reset { .. } => t.reset_called.is_some() || !t.stopped_events.is_empty(),
                    End::Open => t.done_writing,
                },
            })
    }

    /// The server rejected 0-RTT: every early stream must now report that it is gone; then the
    /// workload restarts from scratch, as the API documentation asks applications to do.
    fn rejected(&mut self, cx: &mut AppCx<'_>) {
        let early: Vec<u64> = self.obs.tx.keys().copied().collect();
        for s in early {
            let id = StreamId::from(VarInt::from_u64(s).unwrap());
            match cx.conn.send_stream(id).write(&[0]) {
                Err(WriteError::ClosedStream) => {}
                other => self.violation(format!("0-RTT rejected, but write() on early stream {s} returned {other:?} instead of ClosedStream")),
            }
            match cx.conn.send_stream(id).finish() {
                Err(proto::FinishError::ClosedStream) => {}
                other => self.violation(format!("0-RTT rejected, but finish() on early stream {s} returned {other:?} instead of ClosedStream")),
            }
            if id.dir() == Dir::Bi {
                let mut rs = cx.conn.recv_stream(id);
                if !matches!(rs.read(true), Err(ReadableError::ClosedStream)) {
                    self.violation(format!("0-RTT rejected, but read() on early stream {s} did not return ClosedStream"));
                }
            }
        }
        self.obs.early_tx = std::mem::take(&mut self.obs.tx);
        self.obs.early_dgrams_tx = std::mem::take(&mut self.obs.dgrams_tx);
        self.obs.opened_order.clear();
        self.obs.rx.clear();
        self.next_plan = 0;
        self.active.clear();
        self.readable.clear();
        self.open_blocked = [false; 2];
        self.dgram_next = 0;
        self.dgram_blocked = false;
        self.drives = 0;
        self.finish_due.clear();
    }

    fn try_open(&mut self, cx: &mut AppCx<'_>) -> bool {
        let mut did = false;
        loop {
            if self.next_plan >= self.plan.streams.len() {
                break;
            }
            let limit = if self.plan.concurrent == 0 { usize::MAX } else { self.plan.concurrent };
            if self.active.len() >= limit {
                break;
            }
            let sp = self.plan.streams[self.next_plan].clone();
            if self.open_blocked[sp.dir as usize] {
                break;
            }
            let before = self.plan.audit.then(|| cx.conn.verif_probe().streams);
            let opened = cx.conn.streams().open(sp.dir);
            if let Some(b) = before {
                let d = sp.dir as usize;
                let room = b.next[d] < b.max[d];
                if opened.is_some() != room && !cx.conn.is_closed() {
                    self.violation(format!("audit: open({:?}) returned {:?} with {} streams opened and peer limit {}", sp.dir, opened, b.next[d], b.max[d]));
                }
            }
            match opened {
                Some(id) => {
                    did = true;
                    let idx = self.next_plan;
                    self.next_plan += 1;
                    self.active.push(id);
                    self.obs.opened_order.push(sid(id));
                    self.obs.tx.insert(
                        sid(id),
                        TxObs { plan_idx: Some(idx), target: sp.len as u64, ..Default::default() },
                    );
                    self.pump_write(cx, id);
                }
                None => {
                    self.open_blocked[sp.dir as usize] = true;
                    break;
                }
            }
        }
        did
    }

    fn pump_write(&mut self, cx: &mut AppCx<'_>, id: StreamId) -> bool {
        let s = sid(id);
        let Some(t) = self.obs.tx.get(&s).cloned() else { return false };
        if t.done_writing || t.closed_err {
            return false;
        }
        let (chunk, end) = match t.plan_idx {
            Some(i) => (self.plan.streams[i].chunk.max(1), self.plan.streams[i].end),
            None => (1000, End::Finish),
        };
        let mut did = false;
        let mut t = t;
        t.blocked = false;
        loop {
            if let End::Reset { after, code } = end {
                if t.written >= after as u64 && t.reset_called.is_none() {
                    let code = code ^ self.salt as u32;
                    match cx.conn.send_stream(id).reset(VarInt::from_u32(code)) {
                        Ok(()) => {
                            t.reset_called = Some(code);
                            if self.plan.reset_twice {
                                let _ = cx.conn.send_stream(id).reset(VarInt::from_u32(code));
                            }
                        }
                        Err(_) => t.closed_err = true,
                    }
                    t.done_writing = true;
                    did = true;
                    break;
                }
            }
            if t.written >= t.target {
                t.done_writing = true;
                if let End::FinishLater(n) = end {
                    if !t.finish_called && !self.finish_due.iter().any(|(x, _)| *x == id) {
                        self.finish_due.push((id, self.drive_no + n.max(1)));
                    }
                }
                if end == End::Finish && !t.finish_called {
                    did = true;
                    match cx.conn.send_stream(id).finish() {
                        Ok(()) => t.finish_called = true,
                        Err(proto::FinishError::Stopped(c)) => {
                            t.stopped_events.push(c.into_inner());
                        }
                        Err(proto::FinishError::ClosedStream) => t.closed_err = true,
                    }
                }
                break;
            }
            let mut n = chunk.min((t.target - t.written) as usize);
            if let End::Reset { after, .. } = end {
                n = n.min((after as u64).saturating_sub(t.written).max(1) as usize);
            }
            let salt = self.salt;
            let data: Vec<u8> = (0..n as u64).map(|i| pattern(s, t.written + i) ^ salt).collect();
            let wr = if self.plan.vectored && n >= 3 {
                // three chunks, each no larger than a third: every one may fit where the sum does not
                let a = n / 3;
                let mut chunks = [
                    bytes::Bytes::copy_from_slice(&data[..a]),
                    bytes::Bytes::copy_from_slice(&data[a..2 * a]),
                    bytes::Bytes::copy_from_slice(&data[2 * a..]),
                ];
                cx.conn.send_stream(id).write_chunks(&mut chunks).map(|w| w.bytes)
            } else {
                cx.conn.send_stream(id).write(&data)
            };
            match wr {
                Ok(k) => {
                    did = true;
                    if k == 0 || k > n {
                        self.violation(format!("write returned {k} for {n} bytes on stream {s}"));
                        break;
                    }
                    t.written += k as u64;
                    if self.plan.audit {
                        let pr = cx.conn.verif_probe().streams;
                        if pr.data_sent > pr.max_data {
                            self.violation(format!("audit: after write() data_sent {} exceeds the peer's connection limit {}", pr.data_sent, pr.max_data));
                        }
                        if pr.unacked_data > pr.send_window && !cx.conn.is_handshaking() {
                            self.violation(format!("audit: after write() unacknowledged data {} exceeds the send window {}", pr.unacked_data, pr.send_window));
                        }
                    }
                }
                Err(WriteError::Blocked) => {
                    t.blocked = true;
                    break;
                }
                Err(WriteError::Stopped(c)) => {
                    did = true;
                    if !t.stopped_events.contains(&c.into_inner()) {
                        t.stopped_events.push(c.into_inner());
                    }
                    t.done_writing = true;
                    break;
                }
                Err(WriteError::ClosedStream) => {
                    t.closed_err = true;
                    t.done_writing = true;
                    break;
                }
            }
        }
        self.obs.tx.insert(s, t);
        did
    }

    fn pump_read(&mut self, cx: &mut AppCx<'_>, id: StreamId) -> bool {
        if self.plan.no_read {
            return false;
        }
        let s = sid(id);
        let mut rx = self.obs.rx.get(&s).cloned().unwrap_or_default();
        if rx.fin || rx.reset.is_some() || rx.stopped_by_us || rx.closed_err {
            return false;
        }
        let mut did = false;
        let nth = self.incoming.iter().position(|x| *x == id);
        let mut viol: Vec<String> = vec![];
        loop {
            if let (Some((n, after, code)), Some(k)) = (self.plan.stop, nth) {
                if n == k && rx.bytes >= after {
                    did = true;
                    match cx.conn.recv_stream(id).stop(VarInt::from_u32(code)) {
                        Ok(()) => rx.stopped_by_us = true,
                        Err(_) => rx.closed_err = true,
                    }
                    break;
                }
            }
            let ordered = self.plan.read.ordered
                && !rx.unordered
                && self.plan.read.switch_unordered_after.map_or(true, |n| rx.bytes < n);
            if !ordered {
                rx.unordered = true;
            }
            let mut rs = cx.conn.recv_stream(id);
            let mut chunks = match rs.read(ordered) {
                Ok(c) => c,
                Err(ReadableError::ClosedStream) => {
                    rx.closed_err = true;
                    viol.push(format!("stream {s}: read() answered ClosedStream although this application has neither seen the end of the stream nor a reset nor stopped it ({} bytes obtained so far)", rx.bytes));
                    break;
                }
                Err(ReadableError::IllegalOrderedRead) => {
                    viol.push(format!("stream {s}: IllegalOrderedRead though we never went back to ordered"));
                    break;
                }
            };
            let mut stop_now = false;
            let mut progressed = false;
            loop {
                // honour the stop threshold and the unordered switch between chunks
                if let (Some((n, after, _)), Some(k)) = (self.plan.stop, nth) {
                    if n == k && rx.bytes >= after {
                        stop_now = true;
                        break;
                    }
                }
                if ordered && self.plan.read.switch_unordered_after.map_or(false, |n| rx.bytes >= n) {
                    stop_now = true;
                    break;
                }
                match chunks.next(self.plan.read.max_len) {
                    Ok(Some(c)) => {
                        progressed = true;
                        let len = c.bytes.len() as u64;
                        if len == 0 || (c.bytes.len() > self.plan.read.max_len) {
                            viol.push(format!("stream {s}: chunk of {len} bytes with max_len {}", self.plan.read.max_len));
                        }
                        for (i, b) in c.bytes.iter().enumerate() {
                            if *b != pattern(s, c.offset + i as u64) {
                                viol.push(format!(
                                    "stream {s}: byte at offset {} is {:#x}, written {:#x}",
                                    c.offset + i as u64, b, pattern(s, c.offset + i as u64)
                                ));
                                break;
                            }
                        }
                        if ordered {
                            if c.offset != rx.bytes {
                                viol.push(format!(
                                    "stream {s}: ordered read returned offset {} after {} bytes",
                                    c.offset, rx.bytes
                                ));
                            }
                        } else {
                            for &(o, l) in &rx.chunks {
                                if c.offset < o + l && o < c.offset + len {
                                    viol.push(format!(
                                        "stream {s}: unordered chunk {}..{} overlaps earlier {}..{}",
                                        c.offset, c.offset + len, o, o + l
                                    ));
                                    break;
                                }
                            }
                        }
                        rx.chunks.push((c.offset, len));
                        rx.bytes += len;
                    }
                    Ok(None) => {
                        progressed = true;
                        rx.fin = true;
                        break;
                    }
                    Err(ReadError::Blocked) => break,
                    Err(ReadError::Reset(c)) => {
                        progressed = true;
                        rx.reset = Some(c.into_inner());
                        break;
                    }
                }
            }
            let _ = chunks.finalize();
            did |= progressed;
            if !stop_now {
                break;
            }
        }
        for v in viol {
            self.violation(v);
        }
        self.obs.rx.insert(s, rx);
        did
    }

    fn pump_echo(&mut self, cx: &mut AppCx<'_>, id: StreamId) -> bool {
        let s = sid(id);
        let Some(total) = self.plan.echo_len else { return false };
        if !self.obs.tx.contains_key(&s) {
            self.obs.tx.insert(s, TxObs { plan_idx: None, target: total as u64, ..Default::default() });
        }
        self.pump_write(cx, id)
    }

    fn pump_dgrams(&mut self, cx: &mut AppCx<'_>) -> bool {
        let mut did = false;
        while self.dgram_next < self.plan.datagrams.len() && !self.dgram_blocked {
            let len = self.plan.datagrams[self.dgram_next];
            let tag = self.dgram_next as u16 | ((self.salt as u16) << 8);
            let r = cx.conn.datagrams().send(Bytes::from(dgram_payload(tag, len)), false);
            did = true;
            match r {
                Ok(()) => {
                    self.obs.dgrams_tx.push((tag, len, "ok".into()));
                    self.dgram_next += 1;
                }
                Err(proto::SendDatagramError::Blocked(_)) => {
                    self.dgram_blocked = true;
                }
                Err(e) => {
                    self.obs.dgrams_tx.push((tag, len, format!("{e:?}")));
                    self.dgram_next += 1;
                }
            }
        }
        did
    }
}

impl App for StdApp {
    fn drive(&mut self, cx: &mut AppCx<'_>) -> bool {
        let mut did = false;
        let events: Vec<Event> = cx.events.drain(..).collect();
        for ev in events {
            if !self.obs.lost.is_empty() {
                self.obs.events_after_lost += 1;
            }
            match ev {
                Event::Connected => {
                    self.obs.connected = true;
                    self.salt = 0;
                    if self.side == Side::Client && self.started {
                        self.obs.started_early = true;
                        let acc = cx.conn.accepted_0rtt();
                        self.obs.accepted_0rtt = Some(acc);
                        if !acc {
                            self.rejected(cx);
                        }
                    }
                    if self.side == Side::Client {
                        let pr = cx.conn.verif_probe();
                        self.obs.at_connected = Some((pr.streams.max_data, pr.streams.max, pr.streams.next, pr.streams.data_sent, pr.streams.unacked_data, pr.datagram_outgoing));
                    }
                }
                Event::HandshakeConfirmed => self.obs.handshake_confirmed = true,
                Event::HandshakeDataReady => {}
                Event::ConnectionLost { reason } => self.obs.lost.push(format!("{reason:?}")),
                Event::DatagramReceived if self.plan.no_read => {}
                Event::DatagramReceived => {
                    while let Some(d) = cx.conn.datagrams().recv() {
                        did = true;
                        self.obs.dgrams_rx.push(d.to_vec());
                    }
                }
                Event::DatagramsUnblocked => self.dgram_blocked = false,
                Event::Stream(se) => match se {
                    StreamEvent::Opened { dir } => {
                        let mut n = 0u32;
                        while let Some(id) = cx.conn.streams().accept(dir) {
                            did = true;
                            self.incoming.push(id);
                            self.readable.push(id);
                            n += 1;
                            if n >= 20_000 {
                                // no configuration of the harness grants that many streams
                                self.obs.violations.push(format!("accept({dir:?}) yielded {n} streams in a row (last {id}): more than any stream-count limit granted"));
                                break;
                            }
                        }
                    }
                    StreamEvent::Readable { id } => {
                        if !self.readable.contains(&id) {
                            self.readable.push(id);
                        }
                    }
                    StreamEvent::Writable { id } => {
                        did |= self.pump_write(cx, id);
                    }
                    StreamEvent::Finished { id } => {
                        let s = sid(id);
                        let t = self.obs.tx.entry(s).or_default();
                        t.finished_events += 1;
                        if !t.finish_called {
                            self.violation(format!("Finished event for stream {s} without finish()"));
                        }
                        self.active.retain(|x| *x != id);
                    }
                    StreamEvent::Stopped { id, error_code } => {
                        let s = sid(id);
                        let t = self.obs.tx.entry(s).or_default();
                        t.stopped_events.push(error_code.into_inner());
                        t.done_writing = true;
                        if self.plan.reset_on_stopped && t.reset_called.is_none() && t.finished_events == 0 {
                            if cx.conn.send_stream(id).reset(error_code).is_ok() {
                                t.reset_called = Some(error_code.into_inner() as u32);
                                did = true;
                                if self.plan.reset_twice {
                                    let _ = cx.conn.send_stream(id).finish();
                                    let _ = cx.conn.send_stream(id).reset(error_code);
                                }
                            }
                        }
                        self.active.retain(|x| *x != id);
                    }
                    StreamEvent::Available { dir } => {
                        self.open_blocked[dir as usize] = false;
                    }
                },
            }
        }
        if !self.obs.lost.is_empty() {
            return did;
        }
        // deferred finishes
        self.drive_no += 1;
        // ... are due once everything written so far has been transmitted at least once
        let all_sent = {
            let written: u64 = self.obs.tx.values().map(|t| t.written).sum();
            self.finish_due.is_empty() || cx.conn.verif_probe().streams.data_sent >= written
        };
        let due: Vec<StreamId> = self.finish_due.iter().filter(|(_, at)| all_sent && *at <= self.drive_no).map(|(id, _)| *id).collect();
        self.finish_due.retain(|(id, _)| !due.contains(id));
        for id in due {
            let s = sid(id);
            if let Some(t) = self.obs.tx.get_mut(&s) {
                if !t.finish_called && t.stopped_events.is_empty() && !t.closed_err {
                    did = true;
                    match cx.conn.send_stream(id).finish() {
                        Ok(()) => t.finish_called = true,
                        Err(proto::FinishError::Stopped(c)) => t.stopped_events.push(c.into_inner()),
                        Err(proto::FinishError::ClosedStream) => t.closed_err = true,
                    }
                }
            }
        }
        // reads
        let readable: Vec<StreamId> = std::mem::take(&mut self.readable);
        for id in readable {
            did |= self.pump_read(cx, id);
            if id.dir() == Dir::Bi && id.initiator() != self.side && self.plan.echo_len.is_some() {
                did |= self.pump_echo(cx, id);
            }
        }
        // completion of request/response exchanges frees an "active" slot
        if self.plan.await_response {
            let obs = &self.obs;
            self.active.retain(|id| {
                let s = sid(*id);
                let t = &obs.tx[&s];
                let tx_done = t.finished_events > 0 || !t.stopped_events.is_empty() || t.reset_called.is_some();
                let rx_done = id.dir() == Dir::Uni
                    || obs.rx.get(&s).map_or(false, |r| r.fin || r.reset.is_some());
                !(tx_done && rx_done)
            });
        } else {
            let obs = &self.obs;
            self.active.retain(|id| {
                let t = &obs.tx[&sid(*id)];
                !(t.done_writing && (t.reset_called.is_some() || t.closed_err))
            });
        }
        // writes
        let can_start = self.obs.connected || (self.plan.early && cx.conn.has_0rtt() && cx.conn.is_handshaking());
        if can_start {
            if !self.obs.connected {
                self.salt = self.plan.early_salt;
            }
            self.started = true;
            self.drives += 1;
            if let Some((idx, at, code)) = self.plan.late_reset {
                let fire = cx.conn.verif_probe().in_flight_bytes >= at || (self.obs.connected && self.drives >= 3);
                let target = self.obs.tx.iter().find(|(_, t)| t.plan_idx == Some(idx) && !t.done_writing || t.plan_idx == Some(idx) && t.reset_called.is_none() && !t.closed_err).map(|(s, _)| *s);
                if fire {
                    if let Some(s) = target {
                        let id = StreamId::from(VarInt::from_u64(s).unwrap());
                        let code = code ^ self.salt as u32;
                        let r = cx.conn.send_stream(id).reset(VarInt::from_u32(code));
                        if r.is_ok() && self.plan.reset_twice {
                            let _ = cx.conn.send_stream(id).reset(VarInt::from_u32(code));
                        }
                        let t = self.obs.tx.get_mut(&s).unwrap();
                        match r {
                            Ok(()) => t.reset_called = Some(code),
                            Err(_) => t.closed_err = true,
                        }
                        t.done_writing = true;
                        did = true;
                    }
                }
            }
            did |= self.try_open(cx);
            did |= self.pump_dgrams(cx);
        }
        did
    }
}
