//! Puppet peer: the harness speaks in place of one endpoint, emitting correctly protected
//! packets with arbitrary payloads (it knows the mtls secrets through the key log).

use proto::Side;

use crate::{
    mtls::{self, MKey},
    wire::{self, Forge, PType, WFrame, WPacket},
};

pub fn initial_key(dcid: &[u8], sender: Side) -> MKey {
    mtls::sender_key(dcid, 0, sender, 0)
}

/// Re-forge a client Initial packet (taken from a genuine run) so that the datagram has
/// exactly `total_len` bytes (padding adjusted inside the protected payload), optionally with
/// a different packet number.
pub fn reforge_initial(orig: &WPacket, total_len: usize, pn: u64) -> Vec<u8> {
    reforge_initial_with(orig, total_len, pn, &orig.dcid, &orig.token)
}

/// As `reforge_initial`, with a destination CID and token of the caller's choice (the Initial keys
/// follow the destination CID, so the packet stays well-formed and decryptable)
pub fn reforge_initial_with(orig: &WPacket, total_len: usize, pn: u64, dcid: &[u8], token: &[u8]) -> Vec<u8> {
    let frames = wire::parse_frames(&orig.payload).unwrap_or_default();
    let mut payload = vec![];
    for f in &frames {
        if !matches!(f, WFrame::Padding(_)) {
            wire::encode_frame(f, &mut payload);
        }
    }
    let f = Forge {
        ty: PType::Initial,
        version: orig.version,
        dcid,
        scid: &orig.scid,
        token,
        pn,
        key_phase: false,
        spin: false,
        key: initial_key(dcid, Side::Client),
    };
    let min = f.build(&payload, 0);
    if total_len <= min.len() {
        // cannot shrink below the unpadded size: drop trailing bytes of padding only
        return min;
    }
    f.build(&payload, total_len)
}

/// An impersonated endpoint of an established (or handshaking) mtls connection
#[derive(Clone)]
pub struct Puppet {
    /// The side we speak as
    pub side: Side,
    pub secret: Vec<u8>,
    pub generation: u32,
    pub key_phase: bool,
    /// CID the victim expects as destination
    pub dcid: Vec<u8>,
    pub scid: Vec<u8>,
    pub version: u32,
    /// Initial-space key material (= the client's first destination CID)
    pub initial_dcid: Vec<u8>,
    pub next_pn: [u64; 3],
}

impl Puppet {
    pub fn key(&self, space: usize) -> MKey {
        match space {
            0 => initial_key(&self.initial_dcid, self.side),
            1 => mtls::sender_key(&self.secret, 1, self.side, 0),
            _ => mtls::sender_key(&self.secret, 2, self.side, self.generation),
        }
    }

    /// Build one datagram with a single packet in `space` (0 initial, 1 handshake, 2 1-RTT)
    pub fn packet_raw(&mut self, space: usize, payload: &[u8], min_len: usize) -> Vec<u8> {
        let pn = self.next_pn[space];
        self.next_pn[space] += 1;
        let ty = match space {
            0 => PType::Initial,
            1 => PType::Handshake,
            _ => PType::Short,
        };
        Forge {
            ty,
            version: self.version,
            dcid: &self.dcid,
            scid: &self.scid,
            token: &[],
            pn,
            key_phase: self.key_phase,
            spin: false,
            key: self.key(space),
        }
        .build(payload, min_len)
    }

    pub fn packet(&mut self, space: usize, frames: &[WFrame]) -> Vec<u8> {
        self.packet_raw(space, &wire::frames_bytes(frames), 0)
    }
}

/// Derive a puppet for `side` from what a pair has put on the wire so far.
pub fn puppet_for(p: &crate::scen::StdPair, side: Side) -> Option<Puppet> {
    use crate::sim::{Rec, CLIENT, SERVER};
    let me = if side == Side::Client { CLIENT } else { SERVER };
    let victim = 1 - me;
    let vcl = p.w.nodes[victim].cid_len;
    let rec = p.keylog.last(side)?;
    let mut dcid = None;
    let mut scid = vec![];
    let mut initial_dcid = None;
    let mut version = 1;
    let mut largest = [0u64; 3];
    let mut any = [false; 3];
    let mut key_phase = false;
    for r in &p.w.recs {
        if let Rec::Emit { node, data, ch: Some(_), .. } = r {
            if *node == CLIENT && initial_dcid.is_none() {
                let (pk, _) = wire::parse_datagram(data, p.w.nodes[SERVER].cid_len);
                if let Some(i) = pk.iter().find(|x| x.ty == PType::Initial) {
                    initial_dcid = Some(i.dcid.clone());
                }
            }
            if *node != me {
                continue;
            }
            let (pk, _) = wire::parse_datagram(data, vcl);
            for x in pk {
                if let Some(sp) = x.ty.space() {
                    if x.ty == PType::ZeroRtt {
                        continue;
                    }
                    let full = wire::expand_pn(any[sp].then_some(largest[sp]), x.pn_trunc, x.pn_len);
                    largest[sp] = largest[sp].max(full);
                    any[sp] = true;
                    dcid = Some(x.dcid.clone());
                    if x.ty != PType::Short {
                        scid = x.scid.clone();
                        version = x.version;
                    } else {
                        key_phase = x.key_phase;
                    }
                }
            }
        }
    }
    // with a Retry the Initial keys come from the Retry's source CID: use the dcid of the
    // client's latest Initial instead
    if let Some(last_ini) = p.w.recs.iter().rev().find_map(|r| match r {
        Rec::Emit { node, data, .. } if *node == CLIENT => {
            let (pk, _) = wire::parse_datagram(data, p.w.nodes[SERVER].cid_len);
            pk.into_iter().find(|x| x.ty == PType::Initial).map(|x| x.dcid)
        }
        _ => None,
    }) {
        initial_dcid = Some(last_ini);
    }
    let generation = {
        // count key updates by observing key-phase flips is fragile; ask the probe instead
        let ch = if me == CLIENT { Some(p.cch) } else { p.sch() };
        ch.and_then(|ch| p.w.slot(me, ch)).map_or(0, |_| 0)
    };
    Some(Puppet {
        side,
        secret: rec.secret,
        generation,
        key_phase,
        dcid: dcid?,
        scid,
        version,
        initial_dcid: initial_dcid?,
        next_pn: [
            if any[0] { largest[0] + 1 } else { 0 },
            if any[1] { largest[1] + 1 } else { 0 },
            if any[2] { largest[2] + 1 } else { 0 },
        ],
    })
}
