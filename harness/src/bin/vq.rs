use vx::{checks, report};

#[global_allocator]
static A: vx::alloc::Counting = vx::alloc::Counting;

fn main() {
    let args: Vec<String> = std::env::args().skip(1).collect();
    let Some(which) = args.first().cloned() else {
        report::machinery("usage: vq <check> [--tier quick|thorough] [--replay file]");
    };
    let a = report::parse_args(&args[1..]);
    match which.to_lowercase().as_str() {
        "c01" => checks::c01::main(&a),
        "c02" => checks::c02::main(&a),
        "c03" => checks::c03::main(&a),
        "c04" => checks::c04::main(&a),
        "c05" => checks::c05::main(&a),
        "c06" => checks::c06::main(&a),
        "c07" => checks::c07::main(&a),
        "c08" => checks::c08::main(&a),
        "c09" => checks::c09::main(&a),
        "c10" => checks::c10::main(&a),
        "c11" => checks::c11::main(&a),
        "c12" => checks::c12::main(&a),
        "c13" => checks::c13::main(&a),
        "c14" => checks::c14::main(&a),
        "c15" => checks::c15::main(&a),
        "c16" => checks::c16::main(&a),
        "c17" => checks::c17::main(&a),
        "c20" => checks::c20::main(&a),
        other => report::machinery(&format!("unknown check {other}")),
    }
}
