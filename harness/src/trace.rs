//! Human-readable rendering of a world's record log, using the independent wire decoder.

use crate::{
    sim::{App, Rec, World},
    wire::{self, PType, WFrame},
};

pub fn frames_summary(payload: &[u8]) -> String {
    match wire::parse_frames(payload) {
        Ok(fr) => fr
            .iter()
            .map(|f| match f {
                WFrame::Padding(n) => format!("PAD({n})"),
                WFrame::Stream { id, off, fin, data, .. } => format!("STREAM(id={id},off={off},len={},fin={fin})", data.len()),
                WFrame::Crypto { off, data } => format!("CRYPTO(off={off},len={})", data.len()),
                WFrame::Ack(a) => format!("ACK({:?})", a.ranges),
                WFrame::Datagram { data, .. } => format!("DATAGRAM(len={})", data.len()),
                WFrame::NewToken(t) => format!("NEW_TOKEN(len={})", t.len()),
                other => format!("{other:?}"),
            })
            .collect::<Vec<_>>()
            .join(" "),
        Err(e) => format!("<undecodable frames: {}>", e.0),
    }
}

pub fn datagram_summary(data: &[u8], short_dcid_len: usize) -> String {
    let (pkts, err) = wire::parse_datagram(data, short_dcid_len);
    let mut s = String::new();
    for p in &pkts {
        let body = match p.ty {
            PType::Retry => format!("token_len={}", p.token.len()),
            PType::VersionNeg => "versions".to_string(),
            _ => frames_summary(&p.payload),
        };
        s += &format!("[{:?} pn={} dcid={} {}] ", p.ty, p.pn_trunc, hex(&p.dcid), body);
    }
    if let Some(e) = err {
        s += &format!("<parse error: {}>", e.0);
    }
    s
}

pub fn hex(b: &[u8]) -> String {
    b.iter().map(|x| format!("{x:02x}")).collect()
}

pub fn dump<A: App>(w: &World<A>) -> String {
    let mut out = String::new();
    for r in &w.recs {
        match r {
            Rec::Emit { t, node, ch, idx, dst, data, fate, seg, nseg, .. } => {
                let peer_len = w.nodes.iter().find(|n| n.addr == *dst).map_or(8, |n| n.cid_len);
                out += &format!(
                    "{:>12?} EMIT #{idx} node{node} ch={:?} len={} seg {}/{} fate={:?} {}\n",
                    t, ch.map(|c| c.0), data.len(), seg + 1, nseg, fate, datagram_summary(data, peer_len)
                );
            }
            Rec::Deliver { t, node, idx, len, routed, injected, .. } => {
                out += &format!("{:>12?} DELIVER #{idx} -> node{node} len={len} {routed:?}{}\n", t, if *injected { " (injected)" } else { "" });
            }
            Rec::LinkDrop { t, idx, len } => out += &format!("{:>12?} LINKDROP #{idx} len={len}\n", t),
            Rec::Timer { t, node, ch } => out += &format!("{:>12?} TIMER node{node} ch={}\n", t, ch.0),
            Rec::Event { t, node, ch, ev } => out += &format!("{:>12?} EVENT node{node} ch={} {ev}\n", t, ch.0),
            Rec::Drained { t, node, ch } => out += &format!("{:>12?} DRAINED node{node} ch={}\n", t, ch.0),
            Rec::NextTimeout { t, node, ch, at } => out += &format!("{:>12?} NEXT-TIMEOUT node{node} ch={} {:?}\n", t, ch.0, at),
        }
    }
    out
}
