//! Part 5 — transport parameters (RFC 9000 §18, RFC 9221 §3, RFC 9287 §3, ack-frequency draft)

use std::{
    collections::BTreeMap,
    net::{Ipv4Addr, Ipv6Addr, SocketAddrV4, SocketAddrV6},
    time::Instant,
};

use proto::verif_codec::{self as hook, VPreferredAddress, VTransportParameters as Tp};
use serde_json::{json, Value};

use crate::{guard, h64, hex, par_chunks, pattern, reference as rf, unhex, Acc, PartOut};

const MAX: u64 = (1 << 62) - 1;

/// Integer parameters: (name, id, default, {default, small, boundary, max legal})
const INTS: [(&str, u64, u64, [u64; 4]); 11] = [
    ("max_idle_timeout", 0x01, 0, [0, 1, 16384, MAX]),
    ("max_udp_payload_size", 0x03, 65527, [65527, 1200, 16383, MAX]),
    ("initial_max_data", 0x04, 0, [0, 63, 1 << 30, MAX]),
    ("initial_max_stream_data_bidi_local", 0x05, 0, [0, 64, (1 << 30) - 1, MAX]),
    ("initial_max_stream_data_bidi_remote", 0x06, 0, [0, 1, 16384, MAX]),
    ("initial_max_stream_data_uni", 0x07, 0, [0, 16383, 1 << 30, MAX]),
    ("initial_max_streams_bidi", 0x08, 0, [0, 1, 16384, 1 << 60]),
    ("initial_max_streams_uni", 0x09, 0, [0, 64, 1 << 30, 1 << 60]),
    ("ack_delay_exponent", 0x0a, 3, [3, 0, 4, 20]),
    ("max_ack_delay", 0x0b, 25, [25, 0, 64, 16383]),
    ("active_connection_id_limit", 0x0e, 2, [2, 3, 16384, MAX]),
];

fn int_mut<'a>(p: &'a mut Tp, i: usize) -> &'a mut u64 {
    match i {
        0 => &mut p.max_idle_timeout,
        1 => &mut p.max_udp_payload_size,
        2 => &mut p.initial_max_data,
        3 => &mut p.initial_max_stream_data_bidi_local,
        4 => &mut p.initial_max_stream_data_bidi_remote,
        5 => &mut p.initial_max_stream_data_uni,
        6 => &mut p.initial_max_streams_bidi,
        7 => &mut p.initial_max_streams_uni,
        8 => &mut p.ack_delay_exponent,
        9 => &mut p.max_ack_delay,
        _ => &mut p.active_connection_id_limit,
    }
}

fn int_get(p: &Tp, i: usize) -> u64 {
    match i {
        0 => p.max_idle_timeout,
        1 => p.max_udp_payload_size,
        2 => p.initial_max_data,
        3 => p.initial_max_stream_data_bidi_local,
        4 => p.initial_max_stream_data_bidi_remote,
        5 => p.initial_max_stream_data_uni,
        6 => p.initial_max_streams_bidi,
        7 => p.initial_max_streams_uni,
        8 => p.ack_delay_exponent,
        9 => p.max_ack_delay,
        _ => p.active_connection_id_limit,
    }
}

/// Build the parameter struct a reader must produce from a reference (id -> value) map whose
/// values have already been checked for syntax
pub(crate) fn tp_from_wire(m: &BTreeMap<u64, Vec<u8>>) -> Tp {
    let var = |v: &Vec<u8>| rf::vi_decode(v).map_or(0, |x| x.0);
    let mut p = hook::tp_default();
    for (i, &(_, id, _, _)) in INTS.iter().enumerate() {
        if let Some(v) = m.get(&id) {
            *int_mut(&mut p, i) = var(v);
        }
    }
    p.original_dst_cid = m.get(&0x00).cloned();
    p.stateless_reset_token = m.get(&0x02).map(|v| v[..].try_into().unwrap());
    p.disable_active_migration = m.contains_key(&0x0c);
    p.preferred_address = m.get(&0x0d).map(|v| {
        let v4 = SocketAddrV4::new(Ipv4Addr::new(v[0], v[1], v[2], v[3]), u16::from_be_bytes([v[4], v[5]]));
        let ip6: [u8; 16] = v[6..22].try_into().unwrap();
        let v6 = SocketAddrV6::new(Ipv6Addr::from(ip6), u16::from_be_bytes([v[22], v[23]]), 0, 0);
        let n = usize::from(v[24]);
        VPreferredAddress {
            address_v4: (v[..6] != [0; 6]).then_some(v4),
            address_v6: (v[6..24] != [0; 18]).then_some(v6),
            connection_id: v[25..25 + n].to_vec(),
            stateless_reset_token: v[25 + n..].try_into().unwrap(),
        }
    });
    p.initial_src_cid = m.get(&0x0f).cloned();
    p.retry_src_cid = m.get(&0x10).cloned();
    p.max_datagram_frame_size = m.get(&0x20).map(var);
    p.grease_quic_bit = m.contains_key(&0x2ab2);
    p.min_ack_delay = m.get(&0xff04_de1b).map(var);
    p
}

/// Legal range of integer parameter `i` as enforced by RFC 9000 §18.2 (and §4.6 for stream counts)
fn legal(i: usize, v: u64) -> bool {
    match i {
        1 => v >= 1200,
        6 | 7 => v <= 1 << 60,
        8 => v <= 20,
        9 => v < 1 << 14,
        10 => v >= 2,
        _ => true,
    }
}

const OPTIONALS: [&str; 9] = [
    "stateless_reset_token", "preferred_address", "original_dst_cid", "retry_src_cid", "initial_src_cid",
    "min_ack_delay", "max_datagram_frame_size", "grease_quic_bit", "disable_active_migration",
];

/// Switch on the optional fields selected by `mask`, with contents picked by `variant`
fn set_optionals(p: &mut Tp, mask: u32, variant: usize) {
    let cid_len = [0usize, 8, 20][variant % 3];
    if mask & 1 != 0 {
        p.stateless_reset_token = Some(pattern(16, 0xc0 + variant as u8).try_into().unwrap());
    }
    if mask & 2 != 0 {
        let v4 = SocketAddrV4::new(Ipv4Addr::new(192, 0, 2, 1 + variant as u8), 4433);
        let v6 = SocketAddrV6::new(Ipv6Addr::new(0x2001, 0xdb8, 0, 0, 0, 0, 0, 1 + variant as u16), 443, 0, 0);
        p.preferred_address = Some(VPreferredAddress {
            address_v4: (variant % 3 != 1).then_some(v4),
            address_v6: (variant % 3 != 0).then_some(v6),
            connection_id: pattern([1usize, 8, 20][variant % 3], 0xd0),
            stateless_reset_token: pattern(16, 0xe0).try_into().unwrap(),
        });
    }
    if mask & 4 != 0 {
        p.original_dst_cid = Some(pattern(cid_len, 0x10));
    }
    if mask & 8 != 0 {
        p.retry_src_cid = Some(pattern([20usize, 0, 8][variant % 3], 0x20));
    }
    if mask & 16 != 0 {
        p.initial_src_cid = Some(pattern([8usize, 20, 0][variant % 3], 0x30));
    }
    if mask & 32 != 0 {
        // must not exceed max_ack_delay (ms) expressed in µs
        p.min_ack_delay = Some([0, (p.max_ack_delay * 1000).min(1000), p.max_ack_delay * 1000][variant % 3]);
    }
    if mask & 64 != 0 {
        p.max_datagram_frame_size = Some([0, 65535, MAX][variant % 3]);
    }
    p.grease_quic_bit = mask & 128 != 0;
    p.disable_active_migration = mask & 256 != 0;
}

fn has_server_only(p: &Tp) -> bool {
    p.stateless_reset_token.is_some() || p.preferred_address.is_some() || p.original_dst_cid.is_some() || p.retry_src_cid.is_some()
}

pub(crate) fn tp_json(p: &Tp) -> Value {
    let cid = |x: &Option<Vec<u8>>| x.as_ref().map(|x| hex(x));
    json!({
        "ints": (0..11).map(|i| int_get(p, i)).collect::<Vec<_>>(),
        "disable_active_migration": p.disable_active_migration,
        "max_datagram_frame_size": p.max_datagram_frame_size,
        "initial_src_cid": cid(&p.initial_src_cid),
        "grease_quic_bit": p.grease_quic_bit,
        "min_ack_delay": p.min_ack_delay,
        "original_dst_cid": cid(&p.original_dst_cid),
        "retry_src_cid": cid(&p.retry_src_cid),
        "stateless_reset_token": p.stateless_reset_token.map(|x| hex(&x)),
        "preferred_address": p.preferred_address.as_ref().map(|a| json!({
            "v4": a.address_v4.map(|x| x.to_string()), "v6": a.address_v6.map(|x| x.to_string()),
            "cid": hex(&a.connection_id), "token": hex(&a.stateless_reset_token)})),
        "grease_seed": p.grease_seed,
        "write_order": p.write_order,
    })
}

pub(crate) fn tp_from_json(v: &Value) -> Tp {
    let mut p = hook::tp_default();
    for i in 0..11 {
        if let Some(x) = v["ints"][i].as_u64() {
            *int_mut(&mut p, i) = x;
        }
    }
    let cid = |k: &str| v[k].as_str().map(unhex);
    p.disable_active_migration = v["disable_active_migration"].as_bool().unwrap_or(false);
    p.max_datagram_frame_size = v["max_datagram_frame_size"].as_u64();
    p.initial_src_cid = cid("initial_src_cid");
    p.grease_quic_bit = v["grease_quic_bit"].as_bool().unwrap_or(false);
    p.min_ack_delay = v["min_ack_delay"].as_u64();
    p.original_dst_cid = cid("original_dst_cid");
    p.retry_src_cid = cid("retry_src_cid");
    p.stateless_reset_token = v["stateless_reset_token"].as_str().and_then(|s| unhex(s).try_into().ok());
    let a = &v["preferred_address"];
    if a.is_object() {
        p.preferred_address = Some(VPreferredAddress {
            address_v4: a["v4"].as_str().and_then(|s| s.parse().ok()),
            address_v6: a["v6"].as_str().and_then(|s| s.parse().ok()),
            connection_id: unhex(a["cid"].as_str().unwrap_or("")),
            stateless_reset_token: unhex(a["token"].as_str().unwrap_or("")).try_into().unwrap_or([0; 16]),
        });
    }
    p.grease_seed = v["grease_seed"].as_u64();
    p.write_order = v["write_order"].as_array().map(|a| a.iter().map(|x| x.as_u64().unwrap_or(0) as u8).collect());
    p
}

/// The (id -> value bytes) map RFC 9000 §18 prescribes for `p`, defaults omitted
fn expected_wire(p: &Tp) -> BTreeMap<u64, Vec<u8>> {
    let var = |x: u64| {
        let mut out = Vec::new();
        rf::vi_encode(x, &mut out);
        out
    };
    let mut m = BTreeMap::new();
    for (i, &(_, id, default, _)) in INTS.iter().enumerate() {
        let v = int_get(p, i);
        if v != default {
            m.insert(id, var(v));
        }
    }
    if let Some(x) = &p.original_dst_cid {
        m.insert(0x00, x.clone());
    }
    if let Some(x) = &p.stateless_reset_token {
        m.insert(0x02, x.to_vec());
    }
    if p.disable_active_migration {
        m.insert(0x0c, vec![]);
    }
    if let Some(a) = &p.preferred_address {
        // §18.2 Figure 22
        let mut b = Vec::new();
        b.extend(a.address_v4.map_or([0; 4], |x| x.ip().octets()));
        b.extend(a.address_v4.map_or(0, |x| x.port()).to_be_bytes());
        b.extend(a.address_v6.map_or([0; 16], |x| x.ip().octets()));
        b.extend(a.address_v6.map_or(0, |x| x.port()).to_be_bytes());
        b.push(a.connection_id.len() as u8);
        b.extend(&a.connection_id);
        b.extend(a.stateless_reset_token);
        m.insert(0x0d, b);
    }
    if let Some(x) = &p.initial_src_cid {
        m.insert(0x0f, x.clone());
    }
    if let Some(x) = &p.retry_src_cid {
        m.insert(0x10, x.clone());
    }
    if let Some(x) = p.max_datagram_frame_size {
        m.insert(0x20, var(x));
    }
    if p.grease_quic_bit {
        m.insert(0x2ab2, vec![]);
    }
    if let Some(x) = p.min_ack_delay {
        m.insert(0xff04_de1b, var(x));
    }
    m
}

fn check_one(p: &Tp, acc: &mut Acc, mut log: Option<&mut String>) -> Option<Vec<u8>> {
    let rp = || json!({"part": "transport_parameters", "input": tp_json(p)});
    let bytes = match guard(|| hook::tp_write(p)) {
        Ok(b) => b,
        Err(e) => {
            acc.viol("encoder-panic:transport_parameters", format!("write panicked: {e}: {}", tp_json(p)), rp());
            return None;
        }
    };
    acc.evals += 1;
    acc.hashes.push(h64(5, &bytes));
    // (a) wire format against the RFC layout
    let mut bad = Vec::new();
    match rf::tp_parse(&bytes) {
        Err(e) => bad.push(format!("reference parser: {e}")),
        Ok(list) => {
            let want = expected_wire(p);
            let mut got = BTreeMap::new();
            let mut reserved = 0;
            for (id, value) in list {
                if id % 31 == 27 && !want.contains_key(&id) {
                    reserved += 1; // §18.1 reserved identifier, to be ignored by the reader
                    if value.len() > 16 {
                        bad.push(format!("reserved parameter {id:#x} carries {} bytes", value.len()));
                    }
                    continue;
                }
                if got.insert(id, value).is_some() {
                    bad.push(format!("parameter {id:#x} written twice"));
                }
            }
            if reserved != u32::from(p.grease_seed.is_some()) {
                bad.push(format!("{reserved} reserved parameters written"));
            }
            if got != want {
                let f = |m: &BTreeMap<u64, Vec<u8>>| m.iter().map(|(k, v)| format!("{k:#x}={}", hex(v))).collect::<Vec<_>>().join(" ");
                bad.push(format!("wire [{}], expected [{}]", f(&got), f(&want)));
            }
        }
    }
    acc.evals += 1;
    if !bad.is_empty() {
        acc.viol("tp-encode", format!("{} written as {}: {}", tp_json(p), hex(&bytes), bad.join("; ")), rp());
    }
    // (b) read back: a client reads what a server wrote and vice versa
    let mut want = p.clone();
    want.grease_seed = None;
    want.write_order = None;
    for reader_is_server in [false, true] {
        acc.evals += 1;
        let got = match guard(|| hook::tp_read(reader_is_server, &bytes)) {
            Ok(x) => x,
            Err(e) => {
                acc.viol("decoder-panic:transport_parameters", format!("read({}) panicked: {e}", hex(&bytes)), rp());
                continue;
            }
        };
        if let Some(log) = log.as_deref_mut() {
            log.push_str(&format!("wire {}\nread as {}: {got:?}\n", hex(&bytes), if reader_is_server { "server" } else { "client" }));
        }
        let ok = if reader_is_server && has_server_only(p) {
            // §18.2: a server MUST treat receipt of server-only parameters as an error
            got.is_err()
        } else {
            got.as_ref() == Ok(&want)
        };
        if !ok {
            acc.viol(
                "tp-roundtrip",
                format!("{} written as {} reads (as {}) as {got:?}", tp_json(p), hex(&bytes), if reader_is_server { "server" } else { "client" }),
                rp(),
            );
        }
    }
    Some(bytes)
}

fn base() -> Tp {
    hook::tp_default()
}

/// Integer settings for product index `idx` (mixed radix 4, 11 digits)
fn ints_from_index(p: &mut Tp, mut idx: u64) {
    for (i, int) in INTS.iter().enumerate() {
        *int_mut(p, i) = int.3[(idx % 4) as usize];
        idx /= 4;
    }
}

fn quick_specs() -> Vec<Tp> {
    let mut out = vec![base()];
    // one integer parameter at a time through every legal boundary value
    for i in 0..11 {
        let mut values: Vec<u64> = vec![0, 1, 2, 3, 20, 21, 63, 64, 1199, 1200, 16383, 16384, 65527, (1 << 30) - 1, 1 << 30, 1 << 60, MAX];
        values.extend(INTS[i].3);
        values.sort_unstable();
        values.dedup();
        for v in values.into_iter().filter(|&v| legal(i, v)) {
            let mut p = base();
            *int_mut(&mut p, i) = v;
            out.push(p);
        }
    }
    // every subset of the optional fields x content variant x four integer settings
    for mask in 0..512u32 {
        for variant in 0..3 {
            for ints in [0u64, 0x15_5555, 0x2a_aaaa, 0x3f_ffff] {
                let mut p = base();
                ints_from_index(&mut p, ints);
                set_optionals(&mut p, mask, variant);
                out.push(p);
            }
        }
    }
    // reserved parameter from the crate's own generator under fixed seeds, and write orders
    let mut orders: Vec<Vec<u8>> = vec![(0..21).collect(), (0..21).rev().collect()];
    for r in 1..21u8 {
        orders.push((0..21).map(|i| (i + r) % 21).collect());
    }
    for seed in 0..16u64 {
        for (k, order) in orders.iter().enumerate() {
            let mut p = base();
            ints_from_index(&mut p, 0x3f_ffff - seed);
            set_optionals(&mut p, 0x1ff, k % 3);
            p.grease_seed = Some(seed);
            p.write_order = Some(order.clone());
            out.push(p);
        }
    }
    out
}

pub fn run(thorough: bool, deadline: Instant) -> (PartOut, Vec<(&'static str, Vec<u8>)>) {
    let quick = quick_specs();
    let n_quick = quick.len();
    let chunks: Vec<&[Tp]> = quick.chunks(128).collect();
    let mut acc = par_chunks(chunks, deadline, |chunk, acc| {
        for p in *chunk {
            if let Some(b) = check_one(p, acc, None) {
                acc.corpus.push(("tp", b));
            }
        }
    });
    let mut n_product = 0u64;
    if thorough {
        // full product of the four values of all eleven integer parameters; the optional-field
        // subset, its content variant, the reserved parameter and the write order are derived from
        // the combination index by a fixed multiplicative hash
        n_product = 4u64.pow(11);
        let jobs: Vec<u64> = (0..n_product / 4096).collect();
        acc.merge(par_chunks(jobs, deadline, |&j, acc| {
            for idx in j * 4096..(j + 1) * 4096 {
                let mut p = base();
                ints_from_index(&mut p, idx);
                let hsh = idx.wrapping_mul(0x9e37_79b9_7f4a_7c15) >> 20;
                set_optionals(&mut p, (hsh % 512) as u32, ((hsh >> 9) % 3) as usize);
                if (hsh >> 11) % 4 == 0 {
                    p.grease_seed = Some((hsh >> 13) % 64);
                }
                if (hsh >> 19) % 4 == 0 {
                    let r = ((hsh >> 21) % 21) as u8;
                    p.write_order = Some((0..21).map(|i| (i + r) % 21).collect());
                }
                let b = check_one(&p, acc, None);
                if idx % 2048 == 0 {
                    if let Some(b) = b {
                        acc.corpus.push(("tp", b));
                    }
                }
            }
        }));
    }
    for p in quick.iter().step_by(quick.len() / 5 + 1) {
        let b = hook::tp_write(p);
        acc.sample(|| json!({"params": tp_json(p), "wire": hex(&b)}));
    }
    let detail = json!({
        "quick_specs": n_quick,
        "product_specs": n_product,
        "integer_parameters": INTS.iter().map(|x| json!({"name": x.0, "id": x.1, "default": x.2, "values": x.3})).collect::<Vec<_>>(),
        "optional_fields": OPTIONALS,
        "covered": {
            "always": "each integer parameter alone through every legal boundary value; all 512 subsets of the 9 optional fields x 3 content variants x 4 integer settings; reserved parameter under seeds 0..16 x 23 write orders on a fully populated set",
            "thorough": "full product 4^11 = 4194304 of {default, small, boundary, max legal} over the 11 integer parameters, each combination once, with the optional-field subset / variant / reserved parameter / write order derived from the index by a fixed hash (so not the product of both)",
        },
        "oracles": [
            "(a) written bytes parsed per RFC 9000 §18 equal the expected (id, value) set: defaults omitted, no duplicates, at most one reserved 31N+27 parameter",
            "(b) read by the client == what was written; read by the server == what was written if no server-only parameter is present, otherwise an error (§18.2)",
        ],
        "reserved_parameter_note": "the reserved parameter's id and payload come from the crate's own generator (TransportParameters::new) driven by a StdRng seeded with a fixed seed: deterministic, but a selection of that generator's outputs rather than an enumeration",
        "distinct_note": "distinct = distinct written byte strings, 64-bit hashed",
    });
    acc.finish("transport_parameters", detail)
}

pub(crate) fn replay(input: &Value, acc: &mut Acc) -> String {
    let p = tp_from_json(input);
    let mut log = String::new();
    check_one(&p, acc, Some(&mut log));
    log
}
