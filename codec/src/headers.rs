//! Part 3 — packet headers and coalesced packets (RFC 9000 §12.2, §17; RFC 8999)

use std::time::Instant;

use proto::verif_codec::{self as hook, VHeader};
use serde_json::{json, Value};

use crate::{guard, h64, hex, par_chunks, pattern, reference as rf, unhex, Acc, PartOut};

/// Header-protection sample size of the identity key (16 is what AES and ChaCha20 use)
const SAMPLE: usize = 16;

pub(crate) fn versions() -> &'static [u32] {
    proto::DEFAULT_SUPPORTED_VERSIONS
}

#[derive(Clone)]
pub(crate) struct Spec {
    pub h: VHeader,
    pub payload_len: usize,
}

fn kind_of(h: &VHeader) -> &'static str {
    match h {
        VHeader::Initial { .. } => "Initial",
        VHeader::Long { ty: 0, .. } => "Handshake",
        VHeader::Long { .. } => "ZeroRtt",
        VHeader::Retry { .. } => "Retry",
        VHeader::Short { .. } => "Short",
        VHeader::VersionNegotiate { .. } => "VersionNegotiate",
    }
}

fn has_length(h: &VHeader) -> bool {
    matches!(h, VHeader::Initial { .. } | VHeader::Long { .. })
}

fn dcid_of(h: &VHeader) -> &[u8] {
    match h {
        VHeader::Initial { dcid, .. }
        | VHeader::Long { dcid, .. }
        | VHeader::Retry { dcid, .. }
        | VHeader::Short { dcid, .. }
        | VHeader::VersionNegotiate { dcid, .. } => dcid,
    }
}

fn number_of(h: &VHeader) -> Option<(u64, u64)> {
    match h {
        VHeader::Initial { number, .. } | VHeader::Long { number, .. } | VHeader::Short { number, .. } => Some(*number),
        _ => None,
    }
}

pub(crate) fn spec_json(s: &Spec) -> Value {
    let num = |n: &(u64, u64)| json!([n.0, n.1]);
    let h = match &s.h {
        VHeader::Initial { dcid, scid, token, number, version } => json!({
            "form": "Initial", "dcid": hex(dcid), "scid": hex(scid), "token": hex(token),
            "number": num(number), "version": version}),
        VHeader::Long { ty, dcid, scid, number, version } => json!({
            "form": "Long", "ty": ty, "dcid": hex(dcid), "scid": hex(scid),
            "number": num(number), "version": version}),
        VHeader::Retry { dcid, scid, version } => json!({
            "form": "Retry", "dcid": hex(dcid), "scid": hex(scid), "version": version}),
        VHeader::Short { spin, key_phase, dcid, number } => json!({
            "form": "Short", "spin": spin, "key_phase": key_phase, "dcid": hex(dcid), "number": num(number)}),
        VHeader::VersionNegotiate { random, dcid, scid } => json!({
            "form": "VersionNegotiate", "random": random, "dcid": hex(dcid), "scid": hex(scid)}),
    };
    json!({"header": h, "payload_len": s.payload_len})
}

pub(crate) fn spec_from_json(v: &Value) -> Option<Spec> {
    let h = &v["header"];
    let b = |k: &str| unhex(h[k].as_str().unwrap_or(""));
    let number = || (h["number"][0].as_u64().unwrap_or(0), h["number"][1].as_u64().unwrap_or(0));
    let version = h["version"].as_u64().unwrap_or(1) as u32;
    let hdr = match h["form"].as_str()? {
        "Initial" => VHeader::Initial { dcid: b("dcid"), scid: b("scid"), token: b("token"), number: number(), version },
        "Long" => VHeader::Long { ty: h["ty"].as_u64().unwrap_or(0) as u8, dcid: b("dcid"), scid: b("scid"), number: number(), version },
        "Retry" => VHeader::Retry { dcid: b("dcid"), scid: b("scid"), version },
        "Short" => VHeader::Short {
            spin: h["spin"].as_bool().unwrap_or(false),
            key_phase: h["key_phase"].as_bool().unwrap_or(false),
            dcid: b("dcid"),
            number: number(),
        },
        "VersionNegotiate" => VHeader::VersionNegotiate { random: h["random"].as_u64().unwrap_or(0) as u8, dcid: b("dcid"), scid: b("scid") },
        _ => return None,
    };
    Some(Spec { h: hdr, payload_len: v["payload_len"].as_u64().unwrap_or(20) as usize })
}

fn payload_of(s: &Spec) -> Vec<u8> {
    pattern(s.payload_len, 0xa5)
}

pub(crate) fn encode(s: &Spec) -> Result<Vec<u8>, String> {
    let payload = payload_of(s);
    guard(|| hook::header_encode(&s.h, &payload, SAMPLE))
}

/// Whether the receiver must tolerate a cleared fixed bit to read this header back
fn needs_grease(h: &VHeader) -> bool {
    matches!(h, VHeader::VersionNegotiate { random, .. } if random & 0x40 == 0)
}

/// Compare real encoder output against the RFC layout and the real decoder's output against the
/// inputs. Returns the encoding.
fn check_single(s: &Spec, acc: &mut Acc, log: Option<&mut String>) -> Option<Vec<u8>> {
    let kind = kind_of(&s.h);
    let rp = || json!({"part": "headers", "input": {"kind": "single", "spec": spec_json(s)}});
    let payload = payload_of(s);
    let enc = match encode(s) {
        Ok(x) => x,
        Err(p) => {
            acc.viol(format!("encoder-panic:header:{kind}"), format!("Header::encode/finish panicked: {p}; {}", spec_json(s)), rp());
            return None;
        }
    };
    acc.evals += 1;
    acc.hashes.push(h64(3, &enc));
    let dcid = dcid_of(&s.h);
    let (pn_len, pn_trunc) = match number_of(&s.h) {
        Some((n, la)) => {
            let len = rf::pn_min_len(n, la).unwrap();
            (len, n & ((1u64 << (8 * len)) - 1))
        }
        None => (0, 0),
    };
    // (a) the real encoder's bytes, parsed by the reference parser, give back the inputs
    let mut bad = Vec::new();
    match rf::header_parse(&enc, dcid.len()) {
        Err(e) => bad.push(format!("reference parser rejects the encoding: {e}")),
        Ok(r) => {
            if r.kind != kind {
                bad.push(format!("form {} != {kind}", r.kind));
            }
            if r.dcid != dcid {
                bad.push(format!("dcid {:02x?}", r.dcid));
            }
            if r.header_len + payload.len() != enc.len() || enc[enc.len() - payload.len()..] != payload[..] {
                bad.push(format!("payload not at offset {} of {}", r.header_len, enc.len()));
            }
            if r.packet_len != enc.len() {
                bad.push(format!("packet_len {} != {}", r.packet_len, enc.len()));
            }
            match &s.h {
                VHeader::Initial { scid, token, version, .. } => {
                    if &r.scid != scid || &r.token != token || r.version != *version {
                        bad.push(format!("scid/token/version {:02x?} {:02x?} {:#x}", r.scid, r.token, r.version));
                    }
                }
                VHeader::Long { scid, version, .. } | VHeader::Retry { scid, version, .. } => {
                    if &r.scid != scid || r.version != *version {
                        bad.push(format!("scid/version {:02x?} {:#x}", r.scid, r.version));
                    }
                }
                VHeader::VersionNegotiate { scid, random, .. } => {
                    if &r.scid != scid || r.version != 0 || r.first != 0x80 | random {
                        bad.push(format!("scid/version/first {:02x?} {:#x} {:#x}", r.scid, r.version, r.first));
                    }
                }
                VHeader::Short { spin, key_phase, .. } => {
                    let want = 0x40 | if *spin { 0x20 } else { 0 } | if *key_phase { 0x04 } else { 0 } | (pn_len as u8 - 1);
                    if r.first != want {
                        bad.push(format!("first byte {:#x} != {want:#x}", r.first));
                    }
                }
            }
            if pn_len > 0 && (r.pn_len != pn_len || r.pn_trunc != pn_trunc) {
                bad.push(format!("packet number {}/{:#x} != {pn_len}/{pn_trunc:#x}", r.pn_len, r.pn_trunc));
            }
            if has_length(&s.h) {
                if r.length != Some((pn_len + payload.len()) as u64) {
                    bad.push(format!("Length {:?} != {}", r.length, pn_len + payload.len()));
                }
                // long header: fixed bit set, reserved bits clear (§17.2)
                if r.first & 0xcc != 0xc0 {
                    bad.push(format!("first byte {:#x}: form/fixed/reserved bits", r.first));
                }
            }
            if matches!(s.h, VHeader::Retry { .. }) && r.first & 0xf0 != 0xf0 {
                bad.push(format!("first byte {:#x} of Retry", r.first));
            }
        }
    }
    acc.evals += 1;
    if !bad.is_empty() {
        acc.viol(
            format!("header-encode:{kind}"),
            format!("{} encodes as {} which does not match RFC 9000 §17: {}", spec_json(s), hex(&enc[..enc.len().min(96)]), bad.join("; ")),
            rp(),
        );
    }
    // (b) the real decoder gives back the inputs
    let grease = needs_grease(&s.h);
    let dec = guard(|| hook::header_decode(&enc, dcid.len(), versions(), grease, SAMPLE));
    acc.evals += 1;
    let mut bad = Vec::new();
    match dec {
        Err(p) => {
            acc.viol(format!("decoder-panic:header:{kind}"), format!("decoding {} panicked: {p}", hex(&enc[..enc.len().min(96)])), rp());
        }
        Ok(Err(e)) => bad.push(format!("decoder rejects the encoding: {e}")),
        Ok(Ok((d, rest))) => {
            if let Some(log) = log {
                log.push_str(&format!("encoded {}\ndecoded {d:?}\nrest {rest:?}\n", hex(&enc[..enc.len().min(96)])));
            }
            if d.kind != kind {
                bad.push(format!("kind {}", d.kind));
            }
            if d.dcid != dcid {
                bad.push(format!("dcid {:02x?}", d.dcid));
            }
            if d.payload != payload {
                bad.push(format!("payload of {} bytes differs", d.payload.len()));
            }
            if d.header_data[..] != enc[..enc.len() - payload.len()] {
                bad.push("header_data differs from the encoded header".to_string());
            }
            if d.packet_len != enc.len() {
                bad.push(format!("packet_len {}", d.packet_len));
            }
            if rest.is_some() {
                bad.push(format!("rest is Some({} bytes), expected None", rest.as_ref().unwrap().len()));
            }
            if !d.reserved_bits_valid && !matches!(s.h, VHeader::VersionNegotiate { .. } | VHeader::Retry { .. }) {
                bad.push("reserved bits reported invalid".to_string());
            }
            let (want_scid, want_token, want_version) = match &s.h {
                VHeader::Initial { scid, token, version, .. } => (Some(scid.clone()), Some(token.clone()), Some(*version)),
                VHeader::Long { scid, version, .. } | VHeader::Retry { scid, version, .. } => (Some(scid.clone()), None, Some(*version)),
                VHeader::VersionNegotiate { scid, .. } => (Some(scid.clone()), None, None),
                VHeader::Short { .. } => (None, None, None),
            };
            if d.scid != want_scid || d.token != want_token || d.version != want_version {
                bad.push(format!("scid/token/version {:02x?} {:02x?} {:?}", d.scid, d.token, d.version));
            }
            let (want_len, want_trunc) = if pn_len > 0 { (Some(pn_len), Some(pn_trunc)) } else { (None, None) };
            if d.pn_len != want_len || d.pn_trunc != want_trunc {
                bad.push(format!("packet number {:?}/{:?} != {want_len:?}/{want_trunc:?}", d.pn_len, d.pn_trunc));
            }
            match &s.h {
                VHeader::Short { spin, key_phase, .. } => {
                    if d.spin != Some(*spin) || d.key_phase != Some(*key_phase) {
                        bad.push(format!("spin/key_phase {:?}/{:?}", d.spin, d.key_phase));
                    }
                }
                VHeader::VersionNegotiate { random, .. } => {
                    if d.random != Some(*random) {
                        bad.push(format!("random {:?}", d.random));
                    }
                }
                _ => {}
            }
        }
    }
    if !bad.is_empty() {
        acc.viol(
            format!("header-roundtrip:{kind}"),
            format!("{} encoded as {} decodes differently: {}", spec_json(s), hex(&enc[..enc.len().min(96)]), bad.join("; ")),
            rp(),
        );
    }
    Some(enc)
}

/// Concatenate the encodings and require the decoder to split at exactly the encoded boundaries
fn check_coalesced(specs: &[&Spec], acc: &mut Acc, mut log: Option<&mut String>) {
    let rp = || {
        json!({"part": "headers", "input": {"kind": "coalesced",
            "specs": specs.iter().map(|s| spec_json(s)).collect::<Vec<_>>()}})
    };
    let mut encs = Vec::new();
    for s in specs {
        match encode(s) {
            Ok(e) => encs.push(e),
            Err(_) => return, // reported by the single-packet check
        }
    }
    let datagram: Vec<u8> = encs.concat();
    acc.hashes.push(h64(33, &datagram));
    let mut remaining: Option<Vec<u8>> = Some(datagram.clone());
    let mut offset = 0;
    for (i, s) in specs.iter().enumerate() {
        let Some(cur) = remaining.take() else {
            acc.viol("coalesce-split", format!("datagram exhausted before packet {i} of {}: {}", specs.len(), rp()["input"]), rp());
            return;
        };
        let dcid = dcid_of(&s.h);
        // a form without Length extends to the end of the datagram (RFC 9000 §12.2)
        let want_len = if has_length(&s.h) { encs[i].len() } else { cur.len() };
        let dec = guard(|| hook::header_decode(&cur, dcid.len(), versions(), needs_grease(&s.h), SAMPLE));
        acc.evals += 1;
        let (d, rest) = match dec {
            Err(p) => {
                acc.viol("decoder-panic:header:coalesced", format!("decoding packet {i} panicked: {p}: {}", rp()["input"]), rp());
                return;
            }
            Ok(Err(e)) => {
                acc.viol("coalesce-split", format!("packet {i} at offset {offset} rejected ({e}): {}", rp()["input"]), rp());
                return;
            }
            Ok(Ok(x)) => x,
        };
        if let Some(log) = log.as_deref_mut() {
            log.push_str(&format!(
                "packet {i}: offset {offset}, encoded {} bytes, decoder took {} bytes, rest {:?} bytes\n",
                encs[i].len(), d.packet_len, rest.as_ref().map(|r| r.len())
            ));
        }
        let want_rest = (cur.len() > want_len).then(|| cur[want_len..].to_vec());
        let payload = payload_of(s);
        let ref_len = rf::header_parse(&cur, dcid.len()).map(|r| r.packet_len);
        let mut bad = Vec::new();
        if d.packet_len != want_len {
            bad.push(format!("took {} bytes, encoded boundary is at {want_len}", d.packet_len));
        }
        if rest != want_rest {
            bad.push(format!("rest has {:?} bytes, expected {:?}", rest.as_ref().map(|r| r.len()), want_rest.as_ref().map(|r| r.len())));
        }
        if ref_len != Ok(want_len) {
            bad.push(format!("reference parser puts the boundary at {ref_len:?}"));
        }
        if has_length(&s.h) && (d.kind != kind_of(&s.h) || d.dcid != dcid || d.payload != payload) {
            bad.push("decoded fields differ".to_string());
        }
        if !bad.is_empty() {
            acc.viol("coalesce-split", format!("packet {i} at offset {offset}: {}: {}", bad.join("; "), rp()["input"]), rp());
            return;
        }
        offset += want_len;
        remaining = rest;
    }
    if remaining.is_some() {
        acc.viol("coalesce-split", format!("bytes left over after the last packet: {}", rp()["input"]), rp());
    }
}

fn cid(len: usize, seed: u8) -> Vec<u8> {
    pattern(len, seed)
}

/// (n, largest_acked) pairs producing 1-, 2-, 3- and 4-byte packet numbers with visible bytes
const NUMBERS: [(u64, u64); 4] = [
    (0x0123_4567_89ab_cdef, 0x0123_4567_89ab_cdee),
    (0x0123_4567_89ab_cdef, 0x0123_4567_89ab_cdef - 0x80),
    (0x0123_4567_89ab_cdef, 0x0123_4567_89ab_cdef - 0x8000),
    (0x0123_4567_89ab_cdef, 0x0123_4567_89ab_cdef - 0x80_0000),
];

fn all_specs(thorough: bool) -> Vec<Spec> {
    let vs: Vec<u32> = if thorough {
        versions().to_vec()
    } else {
        vec![versions()[0], versions()[1]]
    };
    let payloads = [20usize, 1200];
    let tokens = [0usize, 1, 63, 64, 300];
    let mut out = Vec::new();
    for d in 0..=20 {
        for s in 0..=20 {
            let (dcid, scid) = (cid(d, 0x11), cid(s, 0x77));
            for &version in &vs {
                for &payload_len in &payloads {
                    for &number in &NUMBERS {
                        for &t in &tokens {
                            out.push(Spec {
                                h: VHeader::Initial { dcid: dcid.clone(), scid: scid.clone(), token: pattern(t, 0x33), number, version },
                                payload_len,
                            });
                        }
                        for ty in 0..2 {
                            out.push(Spec { h: VHeader::Long { ty, dcid: dcid.clone(), scid: scid.clone(), number, version }, payload_len });
                        }
                    }
                    out.push(Spec { h: VHeader::Retry { dcid: dcid.clone(), scid: scid.clone(), version }, payload_len });
                }
            }
            for random in [0x40u8, 0x4a, 0x7f, 0x00, 0x3f] {
                for payload_len in [4usize, 20, 28] {
                    out.push(Spec { h: VHeader::VersionNegotiate { random, dcid: dcid.clone(), scid: scid.clone() }, payload_len });
                }
            }
        }
        for spin in [false, true] {
            for key_phase in [false, true] {
                for &number in &NUMBERS {
                    for &payload_len in &payloads {
                        out.push(Spec { h: VHeader::Short { spin, key_phase, dcid: cid(d, 0x11), number }, payload_len });
                    }
                }
            }
        }
    }
    // extreme payload sizes: the smallest that still leaves a header-protection sample, and the
    // largest the 2-byte Length field written by PartialEncode::finish can describe
    for (i, &number) in NUMBERS.iter().enumerate() {
        let pn_len = i + 1;
        for payload_len in [4 + SAMPLE - pn_len, 16383 - pn_len] {
            for d in [0usize, 8, 20] {
                out.push(Spec { h: VHeader::Initial { dcid: cid(d, 1), scid: cid(8, 2), token: vec![], number, version: 1 }, payload_len });
                out.push(Spec { h: VHeader::Long { ty: 0, dcid: cid(d, 1), scid: cid(8, 2), number, version: 1 }, payload_len });
                out.push(Spec { h: VHeader::Short { spin: false, key_phase: true, dcid: cid(d, 1), number }, payload_len });
            }
        }
    }
    out
}

/// Reduced sets for coalescing: (length-bearing packets, packets allowed in the last position)
fn coalesce_sets(small: bool) -> (Vec<Spec>, Vec<Spec>) {
    let cids: &[usize] = if small { &[0, 20] } else { &[0, 8, 20] };
    let nums: &[(u64, u64)] = if small { &[NUMBERS[0], NUMBERS[3]] } else { &NUMBERS };
    let payloads: &[usize] = if small { &[20] } else { &[20, 300] };
    let mut with_len = Vec::new();
    for &d in cids {
        for &s in cids {
            for &number in nums {
                for &payload_len in payloads {
                    for t in [0usize, 64] {
                        with_len.push(Spec {
                            h: VHeader::Initial { dcid: cid(d, 0x11), scid: cid(s, 0x77), token: pattern(t, 0x33), number, version: 1 },
                            payload_len,
                        });
                    }
                    for ty in 0..2 {
                        with_len.push(Spec { h: VHeader::Long { ty, dcid: cid(d, 0x11), scid: cid(s, 0x77), number, version: 1 }, payload_len });
                    }
                }
            }
        }
    }
    let mut last = with_len.clone();
    for &d in cids {
        for &number in nums {
            last.push(Spec { h: VHeader::Short { spin: true, key_phase: false, dcid: cid(d, 0x11), number }, payload_len: 20 });
        }
        last.push(Spec { h: VHeader::Retry { dcid: cid(d, 0x11), scid: cid(8, 0x77), version: 1 }, payload_len: 40 });
        last.push(Spec { h: VHeader::VersionNegotiate { random: 0x4a, dcid: cid(d, 0x11), scid: cid(8, 0x77) }, payload_len: 8 });
    }
    (with_len, last)
}

pub fn run(thorough: bool, deadline: Instant) -> (PartOut, Vec<(&'static str, Vec<u8>)>) {
    let specs = all_specs(thorough);
    let n_single = specs.len();
    let chunks: Vec<&[Spec]> = specs.chunks(128).collect();
    let mut acc = par_chunks(chunks, deadline, |chunk, acc| {
        for s in *chunk {
            if let Some(enc) = check_single(s, acc, None) {
                if s.payload_len <= 40 {
                    acc.corpus.push(("header", enc));
                }
            }
        }
    });
    // pairs: every length-bearing packet followed by every packet
    let (with_len, last) = coalesce_sets(false);
    let pair_jobs: Vec<usize> = (0..with_len.len()).collect();
    let n_pairs = with_len.len() * last.len();
    acc.merge(par_chunks(pair_jobs, deadline, |&i, acc| {
        for b in &last {
            check_coalesced(&[&with_len[i], b], acc, None);
        }
    }));
    // triples from a reduced set (thorough only)
    let mut n_triples = 0;
    if thorough {
        let (with_len3, last3) = coalesce_sets(true);
        n_triples = with_len3.len() * with_len3.len() * last3.len();
        let jobs: Vec<(usize, usize)> = (0..with_len3.len()).flat_map(|a| (0..with_len3.len()).map(move |b| (a, b))).collect();
        acc.merge(par_chunks(jobs, deadline, |&(a, b), acc| {
            for c in &last3 {
                check_coalesced(&[&with_len3[a], &with_len3[b], c], acc, None);
            }
        }));
    }
    for s in specs.iter().step_by(specs.len() / 5 + 1) {
        if let Ok(enc) = encode(s) {
            acc.sample(|| json!({"spec": spec_json(s), "encoding_prefix": hex(&enc[..enc.len().min(64)]), "encoded_len": enc.len()}));
        }
    }
    let detail = json!({
        "single_packets": n_single,
        "coalesced_pairs": n_pairs,
        "coalesced_triples": n_triples,
        "domain": {
            "forms": ["Initial", "Handshake", "ZeroRtt", "Retry", "Short", "VersionNegotiate"],
            "dcid_len": "0..=20", "scid_len": "0..=20 (long headers)",
            "token_len": [0, 1, 63, 64, 300],
            "packet_number_len": [1, 2, 3, 4],
            "versions": if thorough { versions().to_vec() } else { vec![versions()[0], versions()[1]] },
            "payload_len": "20 and 1200 for the full product; smallest legal and 16383-pn_len for a reduced set",
            "short": "spin x key_phase x dcid_len 0..=20 x pn_len",
            "version_negotiate_random": ["0x40", "0x4a", "0x7f", "0x00 (needs grease_quic_bit)", "0x3f (needs grease_quic_bit)"],
        },
        "oracles": [
            "real encoder bytes parsed by an RFC 9000 §17 reference parser give back every input field, Length == pn_len + payload_len, fixed bit set, reserved bits clear",
            "real decoder (PartialDecode::new + finish, identity header key, sample 16) gives back every input field, payload bytes, header_data, rest == None",
            "coalesced: each PartialDecode::new takes exactly the encoded bytes of one packet and returns exactly the remainder; forms without Length take the whole remainder",
        ],
        "precondition_note": "PartialEncode::finish asserts pn_len + payload_len < 2^14 (2-byte Length); larger long-header packets are not generated",
        "distinct_note": "distinct = distinct encodings / datagrams, 64-bit hashed",
    });
    acc.finish("headers", detail)
}

pub(crate) fn replay(input: &Value, acc: &mut Acc) -> String {
    let mut log = String::new();
    match input["kind"].as_str().unwrap_or("") {
        "single" => {
            let Some(s) = spec_from_json(&input["spec"]) else { return "bad spec".into() };
            check_single(&s, acc, Some(&mut log));
        }
        "coalesced" => {
            let specs: Vec<Spec> = input["specs"].as_array().map(|a| a.iter().filter_map(spec_from_json).collect()).unwrap_or_default();
            let refs: Vec<&Spec> = specs.iter().collect();
            check_coalesced(&refs, acc, Some(&mut log));
        }
        k => return format!("unknown headers input kind {k:?}"),
    }
    log
}
