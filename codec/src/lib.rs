//! C10 — "Wire encodings round-trip and decoders are total"
//!
//! Exhaustive enumeration of finite domains of quinn-proto's wire codecs, compared against
//! independent reference codecs written from RFC 9000 / RFC 9221 / draft-ietf-quic-ack-frequency.
//! No sampling, no fuzzing: every input is produced by a deterministic enumeration and every
//! reported count is measured.

use std::{
    cell::RefCell,
    panic::{self, AssertUnwindSafe},
    sync::Once,
    time::Instant,
};

use rayon::prelude::*;
use serde_json::{json, Value};

pub mod cidtok;
pub mod frames;
pub mod headers;
pub mod pn;
pub mod reference;
pub mod totality;
pub mod tp;
pub mod varint;

/// Result of one part of the check
#[derive(Debug, Clone)]
pub struct PartOut {
    pub name: String,
    /// Number of oracle evaluations (one real-code call compared against the reference)
    pub evaluations: u64,
    /// Number of distinct inputs that exercised a non-default path
    pub distinct_nontrivial: u64,
    /// Whether the whole configured domain was enumerated (false if the deadline cut it short)
    pub exhaustive: bool,
    pub detail: Value,
    pub samples: Vec<Value>,
    pub violations: Vec<Viol>,
}

#[derive(Debug, Clone)]
pub struct Viol {
    /// Short stable id such as "varint-roundtrip" or "decoder-panic:transport_parameters"
    pub signature: String,
    /// The failing input written out
    pub what: String,
    /// `{"part":..., "input":...}`, enough to re-run exactly that input with [`replay`]
    pub replay: Value,
}

/// Maximum number of violations kept verbatim per part (all are counted)
const MAX_KEPT_VIOLATIONS: usize = 40;
/// Maximum number of samples kept per part
const MAX_SAMPLES: usize = 6;

/// Accumulator merged over parallel chunks in deterministic (chunk index) order
#[derive(Default)]
pub(crate) struct Acc {
    pub evals: u64,
    pub hashes: Vec<u64>,
    /// Distinct inputs counted arithmetically (all distinct by construction)
    pub distinct_arith: u64,
    pub viols: Vec<Viol>,
    pub viol_total: u64,
    pub viol_by_sig: std::collections::BTreeMap<String, u64>,
    pub samples: Vec<Value>,
    pub counters: std::collections::BTreeMap<String, u64>,
    /// Cheap per-part counters for hot loops (meaning assigned by each part)
    pub fast: [u64; 16],
    pub skipped_chunks: u64,
    /// Valid encodings handed to the totality part: (kind, bytes)
    pub corpus: Vec<(&'static str, Vec<u8>)>,
}

impl Acc {
    pub fn viol(&mut self, signature: impl Into<String>, what: impl Into<String>, replay: Value) {
        let signature = signature.into();
        self.viol_total += 1;
        let n = self.viol_by_sig.entry(signature.clone()).or_insert(0);
        *n += 1;
        // keep the first few of every signature so that rare signatures are not crowded out
        if *n <= 8 && self.viols.len() < MAX_KEPT_VIOLATIONS {
            self.viols.push(Viol {
                signature,
                what: what.into(),
                replay,
            });
        }
    }

    #[allow(dead_code)]
    pub fn count(&mut self, key: &str, n: u64) {
        *self.counters.entry(key.to_string()).or_insert(0) += n;
    }

    pub fn sample(&mut self, v: impl FnOnce() -> Value) {
        if self.samples.len() < MAX_SAMPLES {
            self.samples.push(v());
        }
    }

    pub fn merge(&mut self, other: Self) {
        self.evals += other.evals;
        self.hashes.extend(other.hashes);
        self.distinct_arith += other.distinct_arith;
        self.viol_total += other.viol_total;
        for (k, v) in other.viol_by_sig {
            *self.viol_by_sig.entry(k).or_insert(0) += v;
        }
        for v in other.viols {
            let kept_of_sig = self
                .viols
                .iter()
                .filter(|x| x.signature == v.signature)
                .count();
            if kept_of_sig < 8 && self.viols.len() < MAX_KEPT_VIOLATIONS {
                self.viols.push(v);
            }
        }
        for s in other.samples {
            if self.samples.len() < MAX_SAMPLES {
                self.samples.push(s);
            }
        }
        for (k, v) in other.counters {
            *self.counters.entry(k).or_insert(0) += v;
        }
        for (a, b) in self.fast.iter_mut().zip(other.fast) {
            *a += b;
        }
        self.skipped_chunks += other.skipped_chunks;
        self.corpus.extend(other.corpus);
    }

    pub fn finish(mut self, name: &str, mut detail: Value) -> (PartOut, Vec<(&'static str, Vec<u8>)>) {
        self.hashes.sort_unstable();
        self.hashes.dedup();
        let distinct = self.hashes.len() as u64 + self.distinct_arith;
        if let Value::Object(ref mut m) = detail {
            m.insert("violations_total".into(), json!(self.viol_total));
            m.insert("violations_by_signature".into(), json!(self.viol_by_sig));
            m.insert("counters".into(), json!(self.counters));
            m.insert("chunks_skipped_by_deadline".into(), json!(self.skipped_chunks));
            m.insert("distinct_hashed".into(), json!(self.hashes.len()));
            m.insert("distinct_arithmetic".into(), json!(self.distinct_arith));
        }
        (
            PartOut {
                name: name.to_string(),
                evaluations: self.evals,
                distinct_nontrivial: distinct,
                exhaustive: self.skipped_chunks == 0,
                detail,
                samples: self.samples,
                violations: self.viols,
            },
            self.corpus,
        )
    }
}

/// Run `f` over `items` on all cores, one `Acc` per item, merged in item order. Items whose turn
/// comes after `deadline` are skipped and counted.
pub(crate) fn par_chunks<T: Send + Sync>(
    items: Vec<T>,
    deadline: Instant,
    f: impl Fn(&T, &mut Acc) + Send + Sync,
) -> Acc {
    let accs: Vec<Acc> = items
        .par_iter()
        .map(|item| {
            let mut acc = Acc::default();
            if Instant::now() > deadline {
                acc.skipped_chunks = 1;
            } else {
                f(item, &mut acc);
            }
            acc
        })
        .collect();
    let mut total = Acc::default();
    for acc in accs {
        total.merge(acc);
    }
    total
}

thread_local! {
    static LAST_PANIC: RefCell<String> = const { RefCell::new(String::new()) };
}

static HOOK: Once = Once::new();

/// Install a panic hook that prints nothing and remembers the message per thread
pub fn install_silent_panic_hook() {
    HOOK.call_once(|| {
        panic::set_hook(Box::new(|info| {
            let msg = if let Some(s) = info.payload().downcast_ref::<&str>() {
                s.to_string()
            } else if let Some(s) = info.payload().downcast_ref::<String>() {
                s.clone()
            } else {
                "<non-string panic>".to_string()
            };
            let loc = info
                .location()
                .map(|l| {
                    let file = l.file();
                    let file = file.rsplit("quinn-proto/").next().unwrap_or(file);
                    format!(" at {}:{}", file, l.line())
                })
                .unwrap_or_default();
            LAST_PANIC.with(|p| *p.borrow_mut() = format!("{msg}{loc}"));
        }));
    });
}

/// Run real code on untrusted input; a panic becomes `Err(message)`
pub(crate) fn guard<T>(f: impl FnOnce() -> T) -> Result<T, String> {
    panic::catch_unwind(AssertUnwindSafe(f))
        .map_err(|_| LAST_PANIC.with(|p| std::mem::take(&mut *p.borrow_mut())))
}

/// 64-bit hash of a byte string (multiply-xorshift; collisions are negligible at our set sizes)
pub(crate) fn h64(tag: u64, bytes: &[u8]) -> u64 {
    let mut h = 0x9e37_79b9_7f4a_7c15u64 ^ tag.wrapping_mul(0xff51_afd7_ed55_8ccd);
    for chunk in bytes.chunks(8) {
        let mut w = [0u8; 8];
        w[..chunk.len()].copy_from_slice(chunk);
        h = (h ^ u64::from_le_bytes(w)).wrapping_mul(0xc4ce_b9fe_1a85_ec53);
        h ^= h >> 29;
    }
    h = (h ^ bytes.len() as u64).wrapping_mul(0xbf58_476d_1ce4_e5b9);
    h ^= h >> 32;
    h = h.wrapping_mul(0x94d0_49bb_1331_11eb);
    h ^ (h >> 31)
}

pub(crate) fn hex(bytes: &[u8]) -> String {
    let mut s = String::with_capacity(bytes.len() * 2);
    for b in bytes {
        s.push_str(&format!("{b:02x}"));
    }
    s
}

pub(crate) fn unhex(s: &str) -> Vec<u8> {
    (0..s.len() / 2)
        .map(|i| u8::from_str_radix(&s[2 * i..2 * i + 2], 16).unwrap_or(0))
        .collect()
}

/// Deterministic filler bytes
pub(crate) fn pattern(len: usize, seed: u8) -> Vec<u8> {
    (0..len)
        .map(|i| (i as u8).wrapping_mul(37).wrapping_add(seed).wrapping_add((i >> 8) as u8))
        .collect()
}

/// Run every part. `thorough` selects the larger bounds; parts stop cleanly at `deadline`.
pub fn run_all(thorough: bool, deadline: Instant) -> Vec<PartOut> {
    run_parts(thorough, deadline, None).into_iter().map(|x| x.0).collect()
}

/// Run all parts (or only the named ones) and also return each part's wall time in seconds
pub fn run_parts(
    thorough: bool,
    deadline: Instant,
    only: Option<&[String]>,
) -> Vec<(PartOut, f64)> {
    install_silent_panic_hook();
    let want = |n: &str| only.is_none_or(|o| o.iter().any(|x| x == n));
    let mut out = Vec::new();
    let mut corpus: Vec<(&'static str, Vec<u8>)> = Vec::new();
    type Part = fn(bool, Instant) -> (PartOut, Vec<(&'static str, Vec<u8>)>);
    let parts: [(&str, Part, bool); 6] = [
        ("varint", varint::run, false),
        ("packet_numbers", pn::run, false),
        // parts 3-6 feed the totality corpus, so they run (in quick mode) whenever it is wanted
        ("headers", headers::run, true),
        ("frames", frames::run, true),
        ("transport_parameters", tp::run, true),
        ("cids_tokens", cidtok::run, true),
    ];
    for (name, f, feeds_corpus) in parts {
        if want(name) {
            let t = Instant::now();
            let (p, c) = f(thorough, deadline);
            corpus.extend(c);
            out.push((p, t.elapsed().as_secs_f64()));
        } else if feeds_corpus && want("totality") {
            corpus.extend(f(false, deadline).1);
        }
    }
    if want("totality") {
        let t = Instant::now();
        let p = totality::run(thorough, deadline, &corpus);
        out.push((p, t.elapsed().as_secs_f64()));
    }
    out
}

/// Re-run one input from a violation's `replay` value; returns a human-readable account
pub fn replay(v: &Value) -> String {
    install_silent_panic_hook();
    let part = v["part"].as_str().unwrap_or("");
    let input = &v["input"];
    let mut acc = Acc::default();
    let account = match part {
        "varint" => varint::replay(input, &mut acc),
        "packet_numbers" => pn::replay(input, &mut acc),
        "headers" => headers::replay(input, &mut acc),
        "frames" => frames::replay(input, &mut acc),
        "transport_parameters" => tp::replay(input, &mut acc),
        "cids_tokens" => cidtok::replay(input, &mut acc),
        "totality" => totality::replay(input, &mut acc),
        other => return format!("unknown part {other:?}"),
    };
    let mut s = format!("replay part={part} input={input}\n{account}\n");
    if acc.viol_total == 0 {
        s.push_str("result: no violation on this input\n");
    } else {
        for v in &acc.viols {
            s.push_str(&format!("result: VIOLATION {} — {}\n", v.signature, v.what));
        }
    }
    s
}
