//! Part 2 — packet number truncation and recovery (RFC 9000 §17.1, A.2, A.3)

use std::time::Instant;

use proto::verif_codec as hook;
use serde_json::{json, Value};

use crate::{guard, h64, par_chunks, reference as rf, Acc, PartOut};

const MAX_PN: u64 = (1 << 62) - 1;

struct Job {
    la: u64,
    d_lo: u64,
    d_hi: u64,
}

/// Receiver expectations probed for a packet `n` sent with a `len`-byte encoding
fn expectations(n: u64, la: u64, len: usize) -> Vec<u64> {
    let h = 1u64 << (8 * len - 1);
    let mut e: Vec<i128> = vec![
        n as i128 - h as i128 - 1, // just outside (below)
        n as i128 - h as i128,     // lowest in-window expectation: n == expected + hwin
        n as i128 - h as i128 + 1,
        n as i128 - (h / 2) as i128,
        n as i128 - 1,
        n as i128,
        n as i128 + 1,
        n as i128 + (h / 2) as i128,
        n as i128 + h as i128 - 1, // highest in-window expectation: expected - hwin < n
        n as i128 + h as i128,     // just outside (above)
        la as i128 + 1,            // the receiver has seen exactly what was acknowledged
    ];
    e.retain(|&x| (0..=MAX_PN as i128).contains(&x));
    e.sort_unstable();
    e.dedup();
    e.into_iter().map(|x| x as u64).collect()
}

/// RFC 9000 A.3 precondition: expected - hwin < n <= expected + hwin
fn in_window(n: u64, expected: u64, len: usize) -> bool {
    let h = 1i128 << (8 * len - 1);
    let (n, e) = (n as i128, expected as i128);
    e - h < n && n <= e + h
}

/// Check the encoding of `n` given `la` and, if `only_expected` is `None`, every probed receiver
/// expectation (else just that one)
fn check_one(la: u64, n: u64, only_expected: Option<u64>, acc: &mut Acc, log: Option<&mut String>) {
    let rp = |e: Option<u64>| json!({"part": "packet_numbers", "input": {"la": la, "n": n, "expected": e}});
    let (len, bytes) = match guard(|| hook::pn_encode(n, la)) {
        Ok(x) => x,
        Err(p) => {
            acc.viol("encoder-panic:packet_number", format!("PacketNumber::new({n}, {la}) panicked: {p}"), rp(None));
            return;
        }
    };
    acc.evals += 1;
    acc.hashes.push(h64(len as u64, &bytes));
    // wire bytes are the low `len` bytes of n in network order
    let want: Vec<u8> = (0..len).rev().map(|i| (n >> (8 * i)) as u8).collect();
    if bytes != want || !(1..=4).contains(&len) {
        acc.viol(
            "pn-encode",
            format!("PacketNumber::new({n}, {la}) encodes as {bytes:02x?} (len {len}), expected the low bytes {want:02x?}"),
            rp(None),
        );
        return;
    }
    // §17.1: the size must represent more than twice the distance to the largest acknowledged
    let d = u128::from(n - la);
    if (1u128 << (8 * len)) < 2 * d + 1 {
        acc.viol(
            "pn-encode-window",
            format!("PacketNumber::new({n}, {la}) uses {len} bytes: window 2^{} does not cover 2*{d}+1 (RFC 9000 §17.1)", 8 * len),
            rp(None),
        );
    }
    if rf::pn_min_len(n, la) != Some(len) {
        acc.fast[5] += 1;
    }
    acc.fast[len] += 1;
    let trunc = want.iter().fold(0u64, |a, &b| (a << 8) | u64::from(b));
    let mut log = log;
    let exps = match only_expected {
        Some(e) => vec![e],
        None => expectations(n, la, len),
    };
    for expected in exps {
        let got = match guard(|| hook::pn_decode_expand(len, &bytes, expected)) {
            Ok(Ok(x)) => x,
            Ok(Err(e)) => {
                acc.viol("pn-decode", format!("PacketNumber::decode({len}, {bytes:02x?}) failed: {e}"), rp(Some(expected)));
                continue;
            }
            Err(p) => {
                acc.viol(
                    "decoder-panic:packet_number",
                    format!("decode({len}, {bytes:02x?}).expand({expected}) panicked: {p}"),
                    rp(Some(expected)),
                );
                continue;
            }
        };
        acc.evals += 1;
        let reference = rf::pn_decode(expected, trunc, 8 * len as u32);
        let inside = in_window(n, expected, len);
        if let Some(log) = log.as_deref_mut() {
            log.push_str(&format!(
                "n={n} la={la} len={len} trunc={trunc:#x} expected={expected} in_window={inside}: expand={got} reference(A.3)={reference}\n"
            ));
        }
        if inside {
            acc.fast[6] += 1;
            if got != n {
                acc.viol(
                    "pn-expand",
                    format!(
                        "n={n} sent with largest_acked={la} as {len} bytes {bytes:02x?}; receiver expecting {expected} (inside the RFC 9000 A.3 window) recovered {got} (reference {reference})"
                    ),
                    rp(Some(expected)),
                );
            }
        } else {
            acc.fast[7] += 1;
        }
        if got != reference {
            if rf::pn_guard_active(expected, trunc, 8 * len as u32) && !inside {
                // RFC A.3 refuses to step past 2^62; quinn omits the guard. Only reachable for
                // expectations outside the window, so it is counted, not reported.
                acc.fast[8] += 1;
            } else {
                acc.viol(
                    "pn-expand-vs-reference",
                    format!(
                        "decode({len}, {bytes:02x?}).expand({expected}) = {got}, RFC 9000 A.3 pseudocode gives {reference} (sent n={n}, in_window={inside})"
                    ),
                    rp(Some(expected)),
                );
            }
        }
    }
}

pub fn run(thorough: bool, deadline: Instant) -> (PartOut, Vec<(&'static str, Vec<u8>)>) {
    let w: u64 = if thorough { 1 << 17 } else { 1 << 10 };
    let boundaries = [1u64 << 7, 1 << 15, 1 << 23, 1 << 31];
    let mut jobs = Vec::new();
    let mut la_sets = Vec::new();
    for &b in &boundaries {
        let mut las = vec![
            0,
            1,
            255,
            256,
            65535,
            65536,
            (1 << 24) - 1,
            1 << 24,
            (1 << 32) - 1,
            1 << 32,
            b - 2,
            b - 1,
            b,
            b + 1,
            1 << 61,
            MAX_PN - (1 << 32),
            MAX_PN - b - w / 2, // highest state for which the whole window is still a legal number
        ];
        las.sort_unstable();
        las.dedup();
        // distance window around the boundary, clipped to what PacketNumber::new can represent
        let d_lo = b.saturating_sub(w / 2).max(1);
        let d_hi = (b + w / 2).min(1 << 31);
        for &la in &las {
            let mut a = d_lo;
            while a < d_hi {
                let z = (a + 4096).min(d_hi);
                if la + z - 1 <= MAX_PN {
                    jobs.push(Job { la, d_lo: a, d_hi: z });
                }
                a = z;
            }
        }
        la_sets.push(json!({"boundary": b, "distance_range": [d_lo, d_hi], "largest_acked": las}));
    }
    let n_jobs = jobs.len();
    let mut acc = par_chunks(jobs, deadline, |job, acc| {
        for d in job.d_lo..job.d_hi {
            check_one(job.la, job.la + d, None, acc, None);
        }
    });
    // the two low bits of the first header byte give the packet number length (§17.2, §17.3.1)
    for tag in 0..=255u8 {
        acc.evals += 1;
        if hook::pn_decode_len(tag) != usize::from(tag & 0x03) + 1 {
            acc.viol("pn-decode-len", format!("decode_len({tag:#x}) = {}", hook::pn_decode_len(tag)), json!(null));
        }
    }
    for (la, n) in [(0u64, 127u64), (0, 128), (1000, 1000 + 32768), (1 << 32, (1 << 32) + (1 << 23))] {
        let (len, bytes) = hook::pn_encode(n, la);
        acc.sample(|| json!({"n": n, "largest_acked": la, "len": len, "bytes": crate::hex(&bytes)}));
    }
    let f = acc.fast;
    let detail = json!({
        "window_W": w,
        "encodings_by_len": {"1": f[1], "2": f[2], "3": f[3], "4": f[4]},
        "encodings_longer_than_rfc_minimum": f[5],
        "triples_in_window": f[6],
        "triples_out_of_window": f[7],
        "out_of_window_divergences_due_to_rfc_2^62_guard": f[8],
        "domain": la_sets,
        "jobs": n_jobs,
        "expectations_per_encoding": "n-h-1, n-h, n-h+1, n-h/2, n-1, n, n+1, n+h/2, n+h-1, n+h, la+1 (h = half the encoding window), clipped to [0, 2^62)",
        "oracles": [
            "wire bytes == low len bytes of n",
            "2^(8 len) >= 2 (n - la) + 1 (RFC 9000 §17.1)",
            "for every expectation with expected - h < n <= expected + h: expand(expected) == n",
            "for every expectation: expand(expected) == reference written from RFC 9000 A.3 (except where only A.3's 2^62 guard differs, counted separately and required to be out of window)",
        ],
        "precondition_note": "PacketNumber::new panics by design for n - largest_acked >= 2^31; distances are clipped to < 2^31",
        "distinct_note": "distinct = distinct (len, truncated bytes) encodings, 64-bit hashed",
    });
    acc.finish("packet_numbers", detail)
}

pub(crate) fn replay(input: &Value, acc: &mut Acc) -> String {
    let la = input["la"].as_u64().unwrap_or(0);
    let n = input["n"].as_u64().unwrap_or(0);
    let mut log = String::new();
    check_one(la, n, input["expected"].as_u64(), acc, Some(&mut log));
    log
}
