//! Part 6 — connection IDs, CID generators, reset tokens and address-validation tokens

use std::{
    net::{IpAddr, Ipv4Addr, Ipv6Addr, SocketAddr, SocketAddrV6},
    sync::Arc,
    time::Instant,
};

use proto::{
    crypto::HandshakeTokenKey, verif_codec as hook, ConnectionId, ConnectionIdGenerator, HashedConnectionIdGenerator,
    RandomConnectionIdGenerator,
};
use serde_json::{json, Value};

use crate::{guard, h64, hex, par_chunks, pattern, unhex, Acc, PartOut};

pub(crate) fn token_key(which: u8) -> Arc<dyn HandshakeTokenKey> {
    let master = pattern(64, which);
    Arc::new(ring::hkdf::Salt::new(ring::hkdf::HKDF_SHA256, &[]).extract(&master))
}

/// Decrypt a token with the public `HandshakeTokenKey`/`AeadKey` traits: (plaintext, nonce bytes)
pub(crate) fn open_token(key: &dyn HandshakeTokenKey, token: &[u8]) -> Option<(Vec<u8>, Vec<u8>)> {
    let split = token.len().checked_sub(16)?;
    let (sealed, nonce) = token.split_at(split);
    let mut sealed = sealed.to_vec();
    let plain = key.aead_from_hkdf(nonce).open(&mut sealed, &[]).ok()?.to_vec();
    Some((plain, nonce.to_vec()))
}

/// Seal an arbitrary plaintext the way `Token::encode` does
pub(crate) fn seal_token(key: &dyn HandshakeTokenKey, plain: &[u8], nonce: &[u8]) -> Vec<u8> {
    let mut buf = plain.to_vec();
    key.aead_from_hkdf(nonce).seal(&mut buf, &[]).expect("seal");
    buf.extend_from_slice(nonce);
    buf
}

fn ip_bytes(ip: IpAddr) -> Vec<u8> {
    match ip {
        IpAddr::V4(x) => [vec![0], x.octets().to_vec()].concat(),
        IpAddr::V6(x) => [vec![1], x.octets().to_vec()].concat(),
    }
}

const HDR_DCID: [u8; 8] = [0xde, 0xad, 0xbe, 0xef, 1, 2, 3, 4];

fn other_ip(ip: IpAddr) -> IpAddr {
    match ip {
        IpAddr::V4(x) => IpAddr::V4(Ipv4Addr::from(u32::from(x) ^ 1)),
        IpAddr::V6(x) => IpAddr::V6(Ipv6Addr::from(u128::from(x) ^ 1)),
    }
}

fn with_port(a: SocketAddr, port: u16) -> SocketAddr {
    let mut a = a;
    a.set_port(port);
    a
}

fn addr_json(a: SocketAddr) -> Value {
    match a {
        SocketAddr::V4(x) => json!({"ip": x.ip().to_string(), "port": x.port()}),
        SocketAddr::V6(x) => json!({"ip": x.ip().to_string(), "port": x.port(), "flowinfo": x.flowinfo(), "scope_id": x.scope_id()}),
    }
}

fn addr_from_json(v: &Value) -> SocketAddr {
    let ip: IpAddr = v["ip"].as_str().and_then(|s| s.parse().ok()).unwrap_or(IpAddr::V4(Ipv4Addr::UNSPECIFIED));
    let port = v["port"].as_u64().unwrap_or(0) as u16;
    match ip {
        IpAddr::V4(_) => SocketAddr::new(ip, port),
        IpAddr::V6(x) => SocketAddr::V6(SocketAddrV6::new(
            x, port, v["flowinfo"].as_u64().unwrap_or(0) as u32, v["scope_id"].as_u64().unwrap_or(0) as u32)),
    }
}

fn check_retry(which_key: u8, addr: SocketAddr, cid_len: usize, issued: u64, nonce: u128, acc: &mut Acc, mut log: Option<&mut String>) -> Option<Vec<u8>> {
    let rp = || json!({"part": "cids_tokens", "input": {"kind": "retry", "key": which_key, "addr": addr_json(addr),
        "cid_len": cid_len, "issued": issued, "nonce": nonce.to_string()}});
    let key = token_key(which_key);
    let cid = pattern(cid_len, 0x42);
    let token = match guard(|| hook::token_encode_retry(&*key, addr, &cid, issued, nonce)) {
        Ok(t) => t,
        Err(p) => {
            acc.viol("encoder-panic:token", format!("retry token for {addr} cid_len {cid_len} issued {issued}: {p}"), rp());
            return None;
        }
    };
    acc.evals += 1;
    acc.hashes.push(h64(6, &token));
    // layout as documented in token.rs: type, ip tag, ip, port, cid, issued seconds; AEAD tag; nonce
    let want_plain = [vec![0u8], ip_bytes(addr.ip()), addr.port().to_be_bytes().to_vec(), vec![cid_len as u8], cid.clone(), issued.to_be_bytes().to_vec()].concat();
    match open_token(&*key, &token) {
        Some((plain, _)) if plain == want_plain && token.len() == want_plain.len() + 32 => {}
        other => acc.viol("token-layout", format!("retry token {} opens to {:?}, expected plaintext {}", hex(&token), other.map(|x| hex(&x.0)), hex(&want_plain)), rp()),
    }
    // (probe remote, now, retry lifetime) -> expected outcome
    let probes: Vec<(&str, SocketAddr, u64, u64, bool)> = vec![
        ("same address, now = issued, lifetime 0", addr, issued, 0, true),
        ("same address, now = issued + 1, lifetime 0", addr, issued + 1, 0, false),
        ("same address, now = issued + 15, lifetime 15", addr, issued + 15, 15, true),
        ("same address, now = issued + 16, lifetime 15", addr, issued + 16, 15, false),
        ("other port", with_port(addr, addr.port() ^ 1), issued, 0, false),
        ("other ip", SocketAddr::new(other_ip(addr.ip()), addr.port()), issued, 0, false),
    ];
    for (what, remote, now, life, want_ok) in probes {
        acc.evals += 1;
        let got = match guard(|| hook::token_check(key.clone(), &token, &HDR_DCID, remote, now, life, 0)) {
            Ok(x) => x,
            Err(p) => {
                acc.viol("decoder-panic:token", format!("checking retry token {} ({what}) panicked: {p}", hex(&token)), rp());
                continue;
            }
        };
        if let Some(log) = log.as_deref_mut() {
            log.push_str(&format!("token {}\n  {what}: {got:?}\n", hex(&token)));
        }
        let ok = match (&got, want_ok) {
            (Ok(t), true) => t.validated && t.orig_dst_cid == cid && t.retry_src_cid.as_deref() == Some(&HDR_DCID[..]) && t.logged.is_none(),
            (Err(()), false) => true,
            _ => false,
        };
        if !ok {
            acc.viol(
                "token-roundtrip:retry",
                format!(
                    "retry token for address {addr:?}, orig_dst_cid {}, issued {issued}: {what}: IncomingToken::from_header gave {got:?}, expected {}",
                    hex(&cid), if want_ok { "validated with that orig_dst_cid" } else { "InvalidRetryTokenError" }
                ),
                rp(),
            );
        }
    }
    // wrong key: undecodable, so treated as absent (RFC 9000 §8.1.3)
    acc.evals += 1;
    match guard(|| hook::token_check(token_key(which_key ^ 0x55), &token, &HDR_DCID, addr, issued, 0, 0)) {
        Ok(Ok(t)) if !t.validated && t.orig_dst_cid == HDR_DCID => {}
        other => acc.viol("token-roundtrip:retry", format!("retry token checked under another key gave {other:?}"), rp()),
    }
    Some(token)
}

fn check_validation(which_key: u8, ip: IpAddr, issued: u64, nonce: u128, acc: &mut Acc, mut log: Option<&mut String>) -> Option<Vec<u8>> {
    let rp = || json!({"part": "cids_tokens", "input": {"kind": "validation", "key": which_key, "ip": ip.to_string(),
        "issued": issued, "nonce": nonce.to_string()}});
    let key = token_key(which_key);
    let token = match guard(|| hook::token_encode_validation(&*key, ip, issued, nonce)) {
        Ok(t) => t,
        Err(p) => {
            acc.viol("encoder-panic:token", format!("validation token for {ip} issued {issued}: {p}"), rp());
            return None;
        }
    };
    acc.evals += 1;
    acc.hashes.push(h64(6, &token));
    let want_plain = [vec![1u8], ip_bytes(ip), issued.to_be_bytes().to_vec()].concat();
    let wire_nonce = u128::from_le_bytes(token[token.len() - 16..].try_into().unwrap());
    match open_token(&*key, &token) {
        Some((plain, _)) if plain == want_plain && token.len() == want_plain.len() + 32 => {}
        other => acc.viol("token-layout", format!("validation token {} opens to {:?}, expected plaintext {}", hex(&token), other.map(|x| hex(&x.0)), hex(&want_plain)), rp()),
    }
    let probes: Vec<(&str, IpAddr, u64, u64, bool)> = vec![
        ("same ip, now = issued, lifetime 0", ip, issued, 0, true),
        ("same ip, now = issued + 1, lifetime 0", ip, issued + 1, 0, false),
        ("same ip, now = issued + 100, lifetime 100", ip, issued + 100, 100, true),
        ("same ip, now = issued + 101, lifetime 100", ip, issued + 101, 100, false),
        ("other ip", other_ip(ip), issued, 0, false),
    ];
    for (what, remote_ip, now, life, want_valid) in probes {
        for port in [1u16, 65535] {
            acc.evals += 1;
            let got = match guard(|| hook::token_check(key.clone(), &token, &HDR_DCID, SocketAddr::new(remote_ip, port), now, 0, life)) {
                Ok(x) => x,
                Err(p) => {
                    acc.viol("decoder-panic:token", format!("checking validation token {} ({what}) panicked: {p}", hex(&token)), rp());
                    continue;
                }
            };
            if let Some(log) = log.as_deref_mut() {
                log.push_str(&format!("token {}\n  {what}, port {port}: {got:?}\n", hex(&token)));
            }
            let ok = match &got {
                Ok(t) if want_valid => {
                    t.validated && t.retry_src_cid.is_none() && t.orig_dst_cid == HDR_DCID && t.logged == Some((wire_nonce, issued))
                }
                Ok(t) => !t.validated && t.retry_src_cid.is_none() && t.orig_dst_cid == HDR_DCID && t.logged.is_none(),
                Err(()) => false,
            };
            if !ok {
                acc.viol(
                    "token-roundtrip:validation",
                    format!("validation token for {ip}, issued {issued}, nonce {wire_nonce:#x}: {what}, port {port}: got {got:?}, expected validated = {want_valid}"),
                    rp(),
                );
            }
        }
    }
    Some(token)
}

fn check_cid_long(len: usize, seed: u8, acc: &mut Acc) {
    let rp = || json!({"part": "cids_tokens", "input": {"kind": "cid_long", "len": len, "seed": seed}});
    if len <= 20 {
        let cid = pattern(len, seed);
        let enc = hook::cid_encode_long(&cid);
        acc.evals += 1;
        acc.hashes.push(h64(61, &enc));
        if enc != [vec![len as u8], cid.clone()].concat() {
            acc.viol("cid-encode", format!("encode_long({}) = {}", hex(&cid), hex(&enc)), rp());
        }
        for extra in [0usize, 3] {
            let mut b = enc.clone();
            b.extend(pattern(extra, 0xfe));
            acc.evals += 1;
            match guard(|| hook::cid_decode_long(&b)) {
                Ok(Some((c, used))) if c == cid && used == len + 1 => {}
                other => acc.viol("cid-roundtrip", format!("decode_long({}) = {other:?}, expected ({}, {})", hex(&b), hex(&cid), len + 1), rp()),
            }
        }
        for cut in 0..enc.len() {
            acc.evals += 1;
            match guard(|| hook::cid_decode_long(&enc[..cut])) {
                Ok(None) => {}
                other => acc.viol("cid-truncated-accepted", format!("decode_long({}) = {other:?}, expected None", hex(&enc[..cut])), rp()),
            }
        }
        acc.corpus.push(("cid", enc));
    } else {
        // RFC 9000 §17.2: version 1 CIDs are at most 20 bytes; plenty of bytes follow the length
        let b = [vec![len as u8], pattern(255, seed)].concat();
        acc.evals += 1;
        acc.hashes.push(h64(61, &b));
        match guard(|| hook::cid_decode_long(&b)) {
            Ok(None) => {}
            other => acc.viol("cid-overlong-accepted", format!("decode_long(len byte {len}, 255 bytes following) = {other:?}"), rp()),
        }
    }
}

fn check_hashed_cid(key: u64, cid: &[u8], want_ok: Option<bool>, acc: &mut Acc) -> Option<bool> {
    let rp = || json!({"part": "cids_tokens", "input": {"kind": "hashed_cid", "key": key.to_string(), "cid": hex(cid)}});
    acc.evals += 1;
    acc.hashes.push(h64(62 ^ key, cid));
    let generator = HashedConnectionIdGenerator::from_key(key);
    match guard(|| generator.validate(ConnectionId::new(cid)).is_ok()) {
        Ok(ok) => {
            if want_ok == Some(true) && !ok {
                acc.viol("cid-validate", format!("CID {} generated with key {key} fails validate()", hex(cid)), rp());
            }
            Some(ok)
        }
        Err(p) => {
            acc.viol(
                "decoder-panic:cid_validate",
                format!(
                    "HashedConnectionIdGenerator::from_key({key}).validate({}) ({} bytes) panicked: {p}. Not reachable from the wire through Endpoint::handle (it only validates CIDs parsed with the generator's own cid_len of 8), but reachable by any direct caller of the public ConnectionIdGenerator::validate.",
                    hex(cid), cid.len()
                ),
                rp(),
            );
            None
        }
    }
}

enum Job {
    Retry(u8, SocketAddr, usize, u64, u128),
    Validation(u8, IpAddr, u64, u128),
    CidLong(usize),
    Hashed(u64),
    HashedLengths(u64),
    Random(usize),
    ResetToken(usize),
    Forgery(usize),
}

fn addresses() -> Vec<SocketAddr> {
    let v6 = |s: &str, port: u16| SocketAddr::new(IpAddr::V6(s.parse().unwrap()), port);
    vec![
        SocketAddr::new(IpAddr::V4(Ipv4Addr::UNSPECIFIED), 0),
        SocketAddr::new(IpAddr::V4(Ipv4Addr::LOCALHOST), 4433),
        SocketAddr::new(IpAddr::V4(Ipv4Addr::BROADCAST), 65535),
        v6("::", 0),
        v6("::1", 443),
        v6("2001:db8::1", 65535),
        v6("::ffff:192.0.2.1", 1),
        v6("ffff:ffff:ffff:ffff:ffff:ffff:ffff:ffff", 65534),
        // link-local with a scope id and a flow label, as recvmsg reports them
        SocketAddr::V6(SocketAddrV6::new("fe80::1".parse().unwrap(), 4433, 0, 3)),
        SocketAddr::V6(SocketAddrV6::new("2001:db8::2".parse().unwrap(), 4433, 0x12345, 0)),
    ]
}

const ISSUED: [u64; 8] = [0, 1, 0x7fff_ffff, 0x8000_0000, 0xffff_ffff, 0x1_0000_0000, 1 << 40, 1 << 62];
const NONCES: [u128; 4] = [0, 1, u128::MAX, 0x0123_4567_89ab_cdef_fedc_ba98_7654_3210];

fn run_job(job: &Job, acc: &mut Acc) {
    match *job {
        Job::Retry(k, addr, cid_len, issued, nonce) => {
            if let Some(t) = check_retry(k, addr, cid_len, issued, nonce, acc, None) {
                if k == 0 {
                    acc.corpus.push(("token", t));
                }
            }
        }
        Job::Validation(k, ip, issued, nonce) => {
            if let Some(t) = check_validation(k, ip, issued, nonce, acc, None) {
                if k == 0 {
                    acc.corpus.push(("token", t));
                }
            }
        }
        Job::CidLong(len) => {
            for seed in [0x00u8, 0x5a, 0xff] {
                check_cid_long(len, seed, acc);
            }
        }
        Job::Hashed(key) => {
            let mut generator = HashedConnectionIdGenerator::from_key(key);
            if generator.cid_len() != 8 {
                acc.viol("cid-validate", format!("cid_len() = {}", generator.cid_len()), json!(null));
            }
            for i in 0..4096 {
                let cid = generator.generate_cid();
                check_hashed_cid(key, &cid, Some(true), acc);
                if i < 64 {
                    for bit in 0..64 {
                        let mut m = cid.to_vec();
                        m[bit / 8] ^= 1 << (bit % 8);
                        if check_hashed_cid(key, &m, None, acc) == Some(true) {
                            acc.fast[0] += 1; // permitted false positive
                        }
                        acc.fast[1] += 1;
                    }
                }
            }
        }
        Job::HashedLengths(key) => {
            for len in 0..=20 {
                for seed in [0u8, 0xff] {
                    check_hashed_cid(key, &pattern(len, seed), None, acc);
                }
            }
        }
        Job::Random(len) => {
            let mut generator = RandomConnectionIdGenerator::new(len);
            acc.evals += 1;
            let cid = generator.generate_cid();
            if cid.len() != len || generator.cid_len() != len || generator.validate(cid).is_err() {
                acc.viol("cid-validate", format!("RandomConnectionIdGenerator::new({len}) produced {} bytes", cid.len()), json!(null));
            }
        }
        Job::ResetToken(len) => {
            let key_bytes = pattern(64, 0x99);
            let key = ring::hmac::Key::new(ring::hmac::HMAC_SHA256, &key_bytes);
            let cid = pattern(len, 0x17);
            acc.evals += 1;
            acc.hashes.push(h64(63, &cid));
            let got = hook::reset_token(&key, &cid);
            let want = ring::hmac::sign(&key, &cid);
            if got[..] != want.as_ref()[..16] {
                acc.viol(
                    "reset-token",
                    format!("ResetToken::new for CID {} = {}, expected the first 16 bytes of HMAC-SHA256 = {}", hex(&cid), hex(&got), hex(&want.as_ref()[..16])),
                    json!({"part": "cids_tokens", "input": {"kind": "reset_token", "len": len}}),
                );
            }
        }
        Job::Forgery(i) => {
            // every single-bit flip of a valid token must be treated as "no token"
            let addr = addresses()[i % addresses().len()];
            let key = token_key(0);
            let token = if i % 2 == 0 {
                hook::token_encode_retry(&*key, addr, &pattern(8, 0x42), 1000, NONCES[3])
            } else {
                hook::token_encode_validation(&*key, addr.ip(), 1000, NONCES[3])
            };
            for bit in 0..token.len() * 8 {
                let mut m = token.clone();
                m[bit / 8] ^= 1 << (bit % 8);
                acc.evals += 1;
                acc.hashes.push(h64(64, &m));
                match guard(|| hook::token_check(key.clone(), &m, &HDR_DCID, addr, 1000, 0, 0)) {
                    Ok(Ok(t)) if !t.validated && t.logged.is_none() && t.orig_dst_cid == HDR_DCID => {}
                    other => acc.viol(
                        "token-forgery",
                        format!("token {} with bit {bit} flipped was not ignored: {other:?}", hex(&token)),
                        json!({"part": "cids_tokens", "input": {"kind": "forgery", "i": i, "bit": bit}}),
                    ),
                }
            }
        }
    }
}

pub fn run(thorough: bool, deadline: Instant) -> (PartOut, Vec<(&'static str, Vec<u8>)>) {
    let mut jobs = Vec::new();
    let addrs = addresses();
    let keys: &[u8] = if thorough { &[0, 1] } else { &[0] };
    for &k in keys {
        for &addr in &addrs {
            for cid_len in 0..=20usize {
                for (i, &issued) in ISSUED.iter().enumerate() {
                    let nonces: &[u128] = if thorough { &NONCES } else { &NONCES[i % 4..i % 4 + 1] };
                    for &nonce in nonces {
                        jobs.push(Job::Retry(k, addr, cid_len, issued, nonce));
                    }
                }
            }
            for &issued in &ISSUED {
                for &nonce in &NONCES {
                    jobs.push(Job::Validation(k, addr.ip(), issued, nonce));
                }
            }
        }
    }
    let n_tokens = jobs.len();
    for len in 0..=255 {
        jobs.push(Job::CidLong(len));
    }
    let hashed_keys = [0u64, 1, 0xdead_beef_cafe_f00d, u64::MAX];
    for &k in &hashed_keys {
        jobs.push(Job::Hashed(k));
        jobs.push(Job::HashedLengths(k));
    }
    for len in 0..=20 {
        jobs.push(Job::Random(len));
        jobs.push(Job::ResetToken(len));
    }
    for i in 0..20 {
        jobs.push(Job::Forgery(i));
    }
    let mut acc = par_chunks(jobs, deadline, run_job);
    let t = hook::token_encode_retry(&*token_key(0), addrs[1], &pattern(8, 0x42), 1000, 7);
    acc.sample(|| json!({"retry_token_for": addrs[1].to_string(), "orig_dst_cid": hex(&pattern(8, 0x42)), "issued": 1000, "token": hex(&t)}));
    let (flips_accepted, flips) = (acc.fast[0], acc.fast[1]);
    let detail = json!({
        "token_specs": n_tokens,
        "tokens": {
            "addresses": addrs.iter().map(|a| addr_json(*a)).collect::<Vec<_>>(),
            "orig_dst_cid_len": "0..=20", "issued_seconds": ISSUED, "nonce_seeds": NONCES.iter().map(|n| n.to_string()).collect::<Vec<_>>(),
            "keys": keys,
            "oracle": "Token::decode is private; tokens are read back through IncomingToken::from_header under a fixed clock: the address is pinned by probing the same / another port / another ip, the issue time by probing now = issued+lifetime and +1, the CID and nonce directly; plaintext layout cross-checked by opening the token with the public AeadKey trait",
        },
        "cid_long": "every length 0..=255 x 3 fill patterns: 0..=20 round-trip (exact and with trailing bytes, every truncation fails), 21..=255 rejected",
        "hashed_generator": {
            "keys": hashed_keys.iter().map(|k| k.to_string()).collect::<Vec<_>>(),
            "generated_per_key": 4096,
            "note": "generate_cid draws its 3-byte nonce from rand::rng(), which the harness cannot seed: the generated CIDs differ from run to run; each violation's replay carries the CID itself",
            "single_bit_flips_checked": flips,
            "single_bit_flips_accepted": flips_accepted,
            "arbitrary_length_cids": "validate() on CIDs of every length 0..=20",
        },
        "forgery": "every single-bit flip of 20 valid tokens must be ignored (treated as no token)",
        "distinct_note": "distinct = distinct tokens / CID encodings / validate inputs, 64-bit hashed",
    });
    acc.finish("cids_tokens", detail)
}

pub(crate) fn replay(input: &Value, acc: &mut Acc) -> String {
    let mut log = String::new();
    let key = input["key"].as_u64().unwrap_or(0) as u8;
    let nonce: u128 = input["nonce"].as_str().and_then(|s| s.parse().ok()).unwrap_or(0);
    match input["kind"].as_str().unwrap_or("") {
        "retry" => {
            check_retry(key, addr_from_json(&input["addr"]), input["cid_len"].as_u64().unwrap_or(0) as usize, input["issued"].as_u64().unwrap_or(0), nonce, acc, Some(&mut log));
        }
        "validation" => {
            let ip = input["ip"].as_str().and_then(|s| s.parse().ok()).unwrap_or(IpAddr::V4(Ipv4Addr::UNSPECIFIED));
            check_validation(key, ip, input["issued"].as_u64().unwrap_or(0), nonce, acc, Some(&mut log));
        }
        "cid_long" => check_cid_long(input["len"].as_u64().unwrap_or(0) as usize, input["seed"].as_u64().unwrap_or(0) as u8, acc),
        "hashed_cid" => {
            let key: u64 = input["key"].as_str().and_then(|s| s.parse().ok()).unwrap_or(0);
            let r = check_hashed_cid(key, &unhex(input["cid"].as_str().unwrap_or("")), None, acc);
            log.push_str(&format!("validate -> {r:?} (None = panicked)\n"));
        }
        "reset_token" => run_job(&Job::ResetToken(input["len"].as_u64().unwrap_or(0) as usize), acc),
        "forgery" => run_job(&Job::Forgery(input["i"].as_u64().unwrap_or(0) as usize), acc),
        k => return format!("unknown cids_tokens input kind {k:?}"),
    }
    log
}
