//! Part 1 — variable-length integers (RFC 9000 §16)

use std::time::Instant;

use proto::{coding::Codec, verif_codec as hook, VarInt};
use serde_json::{json, Value};

use crate::{guard, par_chunks, reference as rf, Acc, PartOut};

const CHUNK: u64 = 1 << 22;

#[derive(Clone, Copy)]
enum Job {
    /// Values `lo..hi`, all expected to be representable
    Values(u64, u64),
    /// Values `lo..=hi`, all expected to be rejected
    Rejects(u64, u64),
    /// All byte strings of this length whose first byte is in `lo..hi`
    Strings(usize, u16, u16),
}

fn ref_encode_arr(v: u64) -> ([u8; 8], usize) {
    let mut out = Vec::with_capacity(8);
    rf::vi_encode(v, &mut out);
    let mut arr = [0u8; 8];
    arr[..out.len()].copy_from_slice(&out);
    (arr, out.len())
}

/// All checks for one representable value; returns the first failed check
fn check_value(v: u64) -> Result<(), (&'static str, String)> {
    let Ok(vi) = VarInt::from_u64(v) else {
        return Err(("varint-from_u64", format!("from_u64({v}) rejected a value below 2^62")));
    };
    if vi.into_inner() != v {
        return Err(("varint-from_u64", format!("from_u64({v}).into_inner() = {}", vi.into_inner())));
    }
    let want_len = rf::vi_size(v).unwrap();
    let size = hook::varint_size(v);
    if size != Some(want_len) {
        return Err(("varint-size", format!("size({v}) = {size:?}, RFC 9000 §16 prescribes {want_len}")));
    }
    let mut arr = [0u8; 16];
    let n = {
        let mut w = &mut arr[..];
        vi.encode(&mut w);
        16 - w.len()
    };
    let (want, want_n) = ref_encode_arr(v);
    if n != want_n || arr[..n] != want[..n] {
        return Err((
            "varint-encode",
            format!("encode({v}) = {:02x?}, RFC 9000 §16 prescribes {:02x?}", &arr[..n], &want[..want_n]),
        ));
    }
    // exact buffer, and buffer with trailing bytes: both must yield v and consume exactly n
    for avail in [n, 16] {
        let mut r = &arr[..avail];
        match VarInt::decode(&mut r) {
            Ok(x) if x.into_inner() == v && avail - r.len() == n => {}
            other => {
                return Err((
                    "varint-roundtrip",
                    format!(
                        "decode(encode({v}) = {:02x?}, {avail} bytes available) = {other:?}, consumed {}",
                        &arr[..n],
                        avail - r.len()
                    ),
                ));
            }
        }
    }
    for k in 0..n {
        let mut r = &arr[..k];
        if let Ok(x) = VarInt::decode(&mut r) {
            return Err((
                "varint-truncated-accepted",
                format!("decode of the first {k} of {n} bytes of encode({v}) returned Ok({x:?})"),
            ));
        }
    }
    Ok(())
}

fn check_reject(v: u64) -> Result<(), (&'static str, String)> {
    if VarInt::from_u64(v).is_ok() {
        return Err(("varint-from_u64", format!("from_u64({v}) accepted a value >= 2^62")));
    }
    if VarInt::try_from(v).is_ok() || VarInt::try_from(u128::from(v)).is_ok() {
        return Err(("varint-from_u64", format!("try_from({v}) accepted a value >= 2^62")));
    }
    if hook::varint_size(v).is_some() {
        return Err(("varint-size", format!("size({v}) defined for a value >= 2^62")));
    }
    Ok(())
}

/// Real decoder against the reference decoder on an arbitrary byte string
fn check_string(s: &[u8]) -> Result<(), (&'static str, String)> {
    let mut r = s;
    let got = guard(|| VarInt::decode(&mut r).map(|x| x.into_inner()));
    let got = match got {
        Ok(x) => x.ok().map(|v| (v, s.len() - r.len())),
        Err(p) => return Err(("decoder-panic:varint", format!("decode({s:02x?}) panicked: {p}"))),
    };
    let want = rf::vi_decode(s);
    if got != want {
        return Err((
            "varint-decode",
            format!("decode({s:02x?}) = {got:?} (value, consumed), reference {want:?}"),
        ));
    }
    Ok(())
}

fn run_job(job: &Job, acc: &mut Acc) {
    match *job {
        Job::Values(lo, hi) => {
            for v in lo..hi {
                if let Err((sig, what)) = check_value(v) {
                    acc.viol(sig, what, json!({"part": "varint", "input": {"kind": "value", "v": v}}));
                }
            }
            acc.evals += hi - lo;
            acc.distinct_arith += hi - lo;
        }
        Job::Rejects(lo, hi) => {
            let mut v = lo;
            loop {
                if let Err((sig, what)) = check_reject(v) {
                    acc.viol(sig, what, json!({"part": "varint", "input": {"kind": "reject", "v": v}}));
                }
                acc.evals += 1;
                acc.distinct_arith += 1;
                if v == hi {
                    break;
                }
                v += 1;
            }
        }
        Job::Strings(len, lo, hi) => {
            let mut s = vec![0u8; len];
            let total = if len == 0 { 1 } else { u64::from(hi - lo) << (8 * (len - 1)) };
            for i in 0..total {
                if len > 0 {
                    let x = i + (u64::from(lo) << (8 * (len - 1)));
                    for (k, b) in s.iter_mut().enumerate() {
                        *b = (x >> (8 * (len - 1 - k))) as u8;
                    }
                }
                if let Err((sig, what)) = check_string(&s) {
                    acc.viol(
                        sig,
                        what,
                        json!({"part": "varint", "input": {"kind": "bytes", "hex": crate::hex(&s)}}),
                    );
                }
            }
            acc.evals += total;
            acc.distinct_arith += total;
        }
    }
}

/// Merge overlapping half-open ranges and cut them into chunks
fn chunked(mut ranges: Vec<(u64, u64)>) -> (Vec<Job>, u64) {
    ranges.sort_unstable();
    let mut merged: Vec<(u64, u64)> = Vec::new();
    for (lo, hi) in ranges {
        match merged.last_mut() {
            Some(last) if lo <= last.1 => last.1 = last.1.max(hi),
            _ => merged.push((lo, hi)),
        }
    }
    let mut jobs = Vec::new();
    let mut total = 0;
    for (lo, hi) in merged {
        total += hi - lo;
        let mut a = lo;
        while a < hi {
            let b = (a + CHUNK).min(hi);
            jobs.push(Job::Values(a, b));
            a = b;
        }
    }
    (jobs, total)
}

pub fn run(thorough: bool, deadline: Instant) -> (PartOut, Vec<(&'static str, Vec<u8>)>) {
    const MAX: u64 = (1 << 62) - 1;
    let radius: u64 = if thorough { 1 << 20 } else { 1 << 10 };
    let mut ranges = vec![(0u64, 1u64 << 14)];
    if thorough {
        ranges.push((1 << 14, 1 << 30));
    } else {
        for k in 14..=30u32 {
            let p = 1u64 << k;
            ranges.push((p - radius.min(p), p + radius));
        }
    }
    for k in 30..=62u32 {
        let p = 1u64 << k;
        ranges.push((p - radius, (p + radius).min(MAX + 1)));
    }
    let (mut jobs, n_values) = chunked(ranges);
    // values that must be rejected: just above 2^62 - 1, around 2^63, up to u64::MAX
    let rejects = [
        (MAX + 1, MAX + radius),
        ((1 << 63) - radius, (1 << 63) + radius),
        (u64::MAX - radius, u64::MAX),
    ];
    let n_rejects: u64 = rejects.iter().map(|(a, b)| b - a + 1).sum();
    jobs.extend(rejects.iter().map(|&(a, b)| Job::Rejects(a, b)));
    // all byte strings up to the bounded length
    let max_len = if thorough { 3 } else { 2 };
    let mut n_strings = 0u64;
    for len in 0..=max_len {
        if len == 0 {
            jobs.push(Job::Strings(0, 0, 1));
            n_strings += 1;
        } else if len < 3 {
            jobs.push(Job::Strings(len, 0, 256));
            n_strings += 1 << (8 * len);
        } else {
            for first in (0..256u16).step_by(16) {
                jobs.push(Job::Strings(len, first, first + 16));
            }
            n_strings += 1 << (8 * len);
        }
    }
    let mut acc = par_chunks(jobs, deadline, run_job);
    for v in [0u64, 63, 64, 16383, 16384, (1 << 30) - 1, 1 << 30, MAX] {
        let mut out = Vec::new();
        VarInt::from_u64(v).unwrap().encode(&mut out);
        acc.sample(|| json!({"value": v, "encoding": crate::hex(&out)}));
    }
    let detail = json!({
        "domain": {
            "values_1_and_2_byte": "0..2^14, every value",
            "values_4_byte": if thorough { "2^14..2^30, every value".to_string() } else { format!("±{radius} around every power of two 2^14..2^30") },
            "values_8_byte": format!("±{radius} around every power of two 2^30..2^61 and around 2^62-1 (clipped to < 2^62)"),
            "rejected_values": format!("2^62..2^62+{radius}, 2^63±{radius}, u64::MAX-{radius}..=u64::MAX"),
            "byte_strings": format!("every byte string of length 0..={max_len}"),
        },
        "values_enumerated": n_values,
        "rejects_enumerated": n_rejects,
        "strings_enumerated": n_strings,
        "checks_per_value": "from_u64 ok; size() == RFC table; encode == RFC bytes; decode(exact) and decode(with trailing bytes) == value consuming size(); every truncation fails",
        "distinct_note": "distinct inputs counted arithmetically: enumerated values and strings are pairwise distinct by construction",
    });
    acc.finish("varint", detail)
}

pub(crate) fn replay(input: &Value, acc: &mut Acc) -> String {
    let r = match input["kind"].as_str().unwrap_or("") {
        "value" => check_value(input["v"].as_u64().unwrap_or(0)),
        "reject" => check_reject(input["v"].as_u64().unwrap_or(0)),
        "bytes" => check_string(&crate::unhex(input["hex"].as_str().unwrap_or(""))),
        k => return format!("unknown varint input kind {k:?}"),
    };
    match r {
        Ok(()) => "all varint checks passed".to_string(),
        Err((sig, what)) => {
            acc.viol(sig, what.clone(), json!({"part": "varint", "input": input}));
            what
        }
    }
}
