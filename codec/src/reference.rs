//! Independent reference codecs, written from the RFC text only (no quinn code is called here)

/// RFC 9000 §16, Table 4: encoded length by value range
pub fn vi_size(v: u64) -> Option<usize> {
    match v {
        0..=63 => Some(1),
        64..=16383 => Some(2),
        16384..=1_073_741_823 => Some(4),
        1_073_741_824..=4_611_686_018_427_387_903 => Some(8),
        _ => None,
    }
}

/// RFC 9000 §16: network byte order, two most significant bits = log2 of the length
pub fn vi_encode(v: u64, out: &mut Vec<u8>) {
    let len = vi_size(v).expect("not encodable");
    let prefix: u64 = match len {
        1 => 0,
        2 => 1,
        4 => 2,
        _ => 3,
    };
    let word = v | (prefix << (8 * len - 2));
    for i in (0..len).rev() {
        out.push((word >> (8 * i)) as u8);
    }
}

/// RFC 9000 §16 / A.1 `ReadVarint`; `None` if `b` is too short
pub fn vi_decode(b: &[u8]) -> Option<(u64, usize)> {
    let first = *b.first()?;
    let len = 1usize << (first >> 6);
    if b.len() < len {
        return None;
    }
    let mut v = u64::from(first & 0x3f);
    for &x in &b[1..len] {
        v = (v << 8) | u64::from(x);
    }
    Some((v, len))
}

/// RFC 9000 A.3 `DecodePacketNumber`, with `expected_pn = largest_pn + 1` passed directly.
/// Computed over mathematical integers.
pub fn pn_decode(expected_pn: u64, truncated_pn: u64, pn_nbits: u32) -> u64 {
    let expected_pn = i128::from(expected_pn);
    let truncated_pn = i128::from(truncated_pn);
    let pn_win: i128 = 1 << pn_nbits;
    let pn_hwin = pn_win / 2;
    let pn_mask = pn_win - 1;
    let candidate_pn = (expected_pn & !pn_mask) | truncated_pn;
    if candidate_pn <= expected_pn - pn_hwin && candidate_pn < (1i128 << 62) - pn_win {
        return (candidate_pn + pn_win) as u64;
    }
    if candidate_pn > expected_pn + pn_hwin && candidate_pn >= pn_win {
        return (candidate_pn - pn_win) as u64;
    }
    candidate_pn as u64
}

/// Whether RFC 9000 A.3's 2^62 overflow guard is what decided the first branch
pub fn pn_guard_active(expected_pn: u64, truncated_pn: u64, pn_nbits: u32) -> bool {
    let pn_win: i128 = 1 << pn_nbits;
    let candidate = (i128::from(expected_pn) & !(pn_win - 1)) | i128::from(truncated_pn);
    candidate >= (1i128 << 62) - pn_win
}

/// RFC 9000 §17.1: the smallest size able to represent more than twice the distance to the largest
/// acknowledged packet; `None` if no size fits
pub fn pn_min_len(n: u64, largest_acked: u64) -> Option<usize> {
    let d = u128::from(n - largest_acked);
    (1..=4usize).find(|len| (1u128 << (8 * len)) > 2 * d)
}

/// Flat frame rendering, same shape as the hook's `VFrame`
#[derive(Debug, Clone, PartialEq, Eq, Default)]
pub struct RFrame {
    pub name: &'static str,
    pub nums: Vec<u64>,
    pub bytes: Vec<u8>,
    pub bytes2: Vec<u8>,
    pub ranges: Vec<(u64, u64)>,
}

struct Rd<'a>(&'a [u8]);

impl<'a> Rd<'a> {
    fn var(&mut self) -> Result<u64, &'static str> {
        let (v, n) = vi_decode(self.0).ok_or("truncated varint")?;
        self.0 = &self.0[n..];
        Ok(v)
    }
    fn take(&mut self, n: u64) -> Result<&'a [u8], &'static str> {
        if n > self.0.len() as u64 {
            return Err("truncated bytes");
        }
        let (a, b) = self.0.split_at(n as usize);
        self.0 = b;
        Ok(a)
    }
    fn rest(&mut self) -> &'a [u8] {
        std::mem::take(&mut self.0)
    }
}

/// Parse a packet payload into frames per RFC 9000 §19, RFC 9221 §4 and
/// draft-ietf-quic-ack-frequency §4-5. Stops with `Err` at the first malformed frame; frames
/// parsed before it are returned alongside.
pub fn frames_parse(payload: &[u8]) -> (Vec<RFrame>, Result<(), &'static str>) {
    let mut r = Rd(payload);
    let mut out = Vec::new();
    if payload.is_empty() {
        // RFC 9000 §12.4: a packet containing no frames is a PROTOCOL_VIOLATION
        return (out, Err("empty payload"));
    }
    while !r.0.is_empty() {
        match frame_parse(&mut r) {
            Ok(f) => out.push(f),
            Err(e) => return (out, Err(e)),
        }
    }
    (out, Ok(()))
}

fn frame_parse(r: &mut Rd<'_>) -> Result<RFrame, &'static str> {
    let ty = r.var()?;
    let mut f = RFrame::default();
    match ty {
        0x00 => f.name = "Padding",
        0x01 => f.name = "Ping",
        0x02 | 0x03 => {
            f.name = "Ack";
            let largest = r.var()?;
            let delay = r.var()?;
            let count = r.var()?;
            let first = r.var()?;
            let mut hi = largest;
            let mut lo = hi.checked_sub(first).ok_or("ack range underflow")?;
            f.ranges.push((lo, hi));
            for _ in 0..count {
                let gap = r.var()?;
                let len = r.var()?;
                // §19.3.1: largest = previous_smallest - gap - 2
                hi = lo
                    .checked_sub(gap)
                    .and_then(|x| x.checked_sub(2))
                    .ok_or("ack range underflow")?;
                lo = hi.checked_sub(len).ok_or("ack range underflow")?;
                f.ranges.push((lo, hi));
            }
            f.nums = vec![largest, delay];
            if ty == 0x03 {
                f.nums.push(1);
                for _ in 0..3 {
                    let x = r.var()?;
                    f.nums.push(x);
                }
            } else {
                f.nums.push(0);
            }
        }
        0x04 => {
            f.name = "ResetStream";
            f.nums = vec![r.var()?, r.var()?, r.var()?];
        }
        0x05 => {
            f.name = "StopSending";
            f.nums = vec![r.var()?, r.var()?];
        }
        0x06 => {
            f.name = "Crypto";
            f.nums = vec![r.var()?];
            let len = r.var()?;
            f.bytes = r.take(len)?.to_vec();
        }
        0x07 => {
            f.name = "NewToken";
            let len = r.var()?;
            f.bytes = r.take(len)?.to_vec();
        }
        0x08..=0x0f => {
            f.name = "Stream";
            let id = r.var()?;
            let offset = if ty & 0x04 != 0 { r.var()? } else { 0 };
            f.bytes = if ty & 0x02 != 0 {
                let len = r.var()?;
                r.take(len)?.to_vec()
            } else {
                r.rest().to_vec()
            };
            f.nums = vec![id, offset, ty & 0x01];
        }
        0x10 => {
            f.name = "MaxData";
            f.nums = vec![r.var()?];
        }
        0x11 => {
            f.name = "MaxStreamData";
            f.nums = vec![r.var()?, r.var()?];
        }
        0x12 | 0x13 => {
            f.name = "MaxStreams";
            f.nums = vec![ty - 0x12, r.var()?];
        }
        0x14 => {
            f.name = "DataBlocked";
            f.nums = vec![r.var()?];
        }
        0x15 => {
            f.name = "StreamDataBlocked";
            f.nums = vec![r.var()?, r.var()?];
        }
        0x16 | 0x17 => {
            f.name = "StreamsBlocked";
            f.nums = vec![ty - 0x16, r.var()?];
        }
        0x18 => {
            f.name = "NewConnectionId";
            let seq = r.var()?;
            let retire_prior_to = r.var()?;
            // §19.15: Retire Prior To greater than Sequence Number is a FRAME_ENCODING_ERROR
            if retire_prior_to > seq {
                return Err("retire_prior_to > sequence");
            }
            let len = u64::from(*r.take(1)?.first().unwrap());
            // §19.15: values less than 1 and greater than 20 are invalid
            if !(1..=20).contains(&len) {
                return Err("invalid cid length");
            }
            f.bytes = r.take(len)?.to_vec();
            f.bytes2 = r.take(16)?.to_vec();
            f.nums = vec![seq, retire_prior_to];
        }
        0x19 => {
            f.name = "RetireConnectionId";
            f.nums = vec![r.var()?];
        }
        0x1a | 0x1b => {
            f.name = if ty == 0x1a { "PathChallenge" } else { "PathResponse" };
            let data = r.take(8)?;
            f.nums = vec![u64::from_be_bytes(data.try_into().unwrap())];
        }
        0x1c => {
            f.name = "ConnectionClose";
            let code = r.var()?;
            let frame_type = r.var()?;
            let len = r.var()?;
            f.bytes = r.take(len)?.to_vec();
            // §19.19: a Frame Type of 0 means the type is unknown
            f.nums = match frame_type {
                0 => vec![code, 0],
                t => vec![code, 1, t],
            };
        }
        0x1d => {
            f.name = "ApplicationClose";
            f.nums = vec![r.var()?];
            let len = r.var()?;
            f.bytes = r.take(len)?.to_vec();
        }
        0x1e => f.name = "HandshakeDone",
        0x1f => f.name = "ImmediateAck",
        0xaf => {
            f.name = "AckFrequency";
            f.nums = vec![r.var()?, r.var()?, r.var()?, r.var()?];
        }
        0x30 | 0x31 => {
            f.name = "Datagram";
            f.bytes = if ty & 0x01 != 0 {
                let len = r.var()?;
                r.take(len)?.to_vec()
            } else {
                r.rest().to_vec()
            };
        }
        _ => return Err("unknown frame type"),
    }
    Ok(f)
}

/// Long/short header fields parsed per RFC 9000 §17 / RFC 8999 (no header protection)
#[derive(Debug, Clone, PartialEq, Eq, Default)]
pub struct RHeader {
    /// "Initial", "ZeroRtt", "Handshake", "Retry", "VersionNegotiate" or "Short"
    pub kind: &'static str,
    pub first: u8,
    pub version: u32,
    pub dcid: Vec<u8>,
    pub scid: Vec<u8>,
    pub token: Vec<u8>,
    /// Value of the Length field, if the form has one
    pub length: Option<u64>,
    pub pn_len: usize,
    pub pn_trunc: u64,
    /// Offset of the first byte after the header (after the packet number, if any)
    pub header_len: usize,
    /// Total length of this packet within the datagram
    pub packet_len: usize,
}

/// Parse the first packet of a datagram; `short_dcid_len` is the receiver's CID length
pub fn header_parse(b: &[u8], short_dcid_len: usize) -> Result<RHeader, &'static str> {
    let mut r = Rd(b);
    let first = *r.take(1)?.first().unwrap();
    let mut h = RHeader {
        first,
        ..RHeader::default()
    };
    if first & 0x80 == 0 {
        h.kind = "Short";
        h.dcid = r.take(short_dcid_len as u64)?.to_vec();
        h.pn_len = usize::from(first & 0x03) + 1;
        for &x in r.take(h.pn_len as u64)? {
            h.pn_trunc = (h.pn_trunc << 8) | u64::from(x);
        }
        h.header_len = b.len() - r.0.len();
        h.packet_len = b.len();
        return Ok(h);
    }
    h.version = u32::from_be_bytes(r.take(4)?.try_into().unwrap());
    let n = u64::from(*r.take(1)?.first().unwrap());
    h.dcid = r.take(n)?.to_vec();
    let n = u64::from(*r.take(1)?.first().unwrap());
    h.scid = r.take(n)?.to_vec();
    if h.version == 0 {
        h.kind = "VersionNegotiate";
        h.header_len = b.len() - r.0.len();
        h.packet_len = b.len();
        return Ok(h);
    }
    h.kind = match (first >> 4) & 0x03 {
        0 => "Initial",
        1 => "ZeroRtt",
        2 => "Handshake",
        _ => "Retry",
    };
    if h.kind == "Retry" {
        h.header_len = b.len() - r.0.len();
        h.packet_len = b.len();
        return Ok(h);
    }
    if h.kind == "Initial" {
        let n = r.var()?;
        h.token = r.take(n)?.to_vec();
    }
    let length = r.var()?;
    h.length = Some(length);
    let before_pn = b.len() - r.0.len();
    if length > r.0.len() as u64 {
        return Err("length exceeds datagram");
    }
    h.packet_len = before_pn + length as usize;
    h.pn_len = usize::from(first & 0x03) + 1;
    for &x in r.take(h.pn_len as u64)? {
        h.pn_trunc = (h.pn_trunc << 8) | u64::from(x);
    }
    h.header_len = before_pn + h.pn_len;
    Ok(h)
}

/// Transport parameters per RFC 9000 §18: sequence of (id, length, value)
pub fn tp_parse(b: &[u8]) -> Result<Vec<(u64, Vec<u8>)>, &'static str> {
    let mut r = Rd(b);
    let mut out = Vec::new();
    while !r.0.is_empty() {
        let id = r.var()?;
        let len = r.var()?;
        out.push((id, r.take(len)?.to_vec()));
    }
    Ok(out)
}

/// Serialize (id, value) pairs per RFC 9000 §18
pub fn tp_unparse(list: &[(u64, Vec<u8>)]) -> Vec<u8> {
    let mut out = Vec::new();
    for (id, value) in list {
        vi_encode(*id, &mut out);
        vi_encode(value.len() as u64, &mut out);
        out.extend_from_slice(value);
    }
    out
}

/// Outcome of the reference transport-parameter reader
#[derive(Debug, Clone, PartialEq, Eq)]
pub enum TpRead {
    /// Well-formed and legal: id -> value bytes of every known parameter present
    Ok(std::collections::BTreeMap<u64, Vec<u8>>),
    /// Malformed or illegal per RFC 9000 §7.4 / §18
    Err(&'static str),
    /// The RFC leaves the outcome to the implementation (duplicates are a SHOULD; a preferred
    /// address with both families unspecified is not addressed)
    Either,
}

const TP_INT_IDS: [u64; 11] = [0x01, 0x03, 0x04, 0x05, 0x06, 0x07, 0x08, 0x09, 0x0a, 0x0b, 0x0e];

fn exact_varint(value: &[u8]) -> Option<u64> {
    match vi_decode(value) {
        Some((v, n)) if n == value.len() => Some(v),
        _ => None,
    }
}

/// Reference reader for transport parameters: structure per §18, per-parameter value syntax per
/// §18.2 (integers are varints occupying exactly the declared length, in any of their valid
/// encodings per §16), legality per §18.2 / §4.6 / §7.4
pub fn tp_read(b: &[u8], reader_is_server: bool) -> TpRead {
    let list = match tp_parse(b) {
        Ok(l) => l,
        Err(e) => return TpRead::Err(e),
    };
    let mut m = std::collections::BTreeMap::new();
    let mut either = false;
    let int = |m: &std::collections::BTreeMap<u64, Vec<u8>>, id: u64, default: u64| {
        m.get(&id).map_or(default, |v| exact_varint(v).unwrap())
    };
    for (id, value) in list {
        let known = TP_INT_IDS.contains(&id) || matches!(id, 0x00 | 0x02 | 0x0c | 0x0d | 0x0f | 0x10 | 0x20 | 0x2ab2 | 0xff04_de1b);
        if !known {
            continue; // §7.4.2: unknown parameters are ignored
        }
        let ok = match id {
            0x00 | 0x0f | 0x10 => value.len() <= 20,
            0x02 => value.len() == 16,
            0x0c | 0x2ab2 => value.is_empty(),
            0x0d => {
                value.len() >= 25
                    && usize::from(value[24]) <= 20
                    && value.len() == 4 + 2 + 16 + 2 + 1 + usize::from(value[24]) + 16
            }
            _ => exact_varint(&value).is_some(),
        };
        if !ok {
            return TpRead::Err("malformed parameter value");
        }
        if m.insert(id, value).is_some() {
            either = true;
        }
    }
    if either {
        return TpRead::Either;
    }
    if int(&m, 0x0a, 3) > 20
        || int(&m, 0x0b, 25) >= 1 << 14
        || int(&m, 0x0e, 2) < 2
        || int(&m, 0x03, 65527) < 1200
        || int(&m, 0x08, 0) > 1 << 60
        || int(&m, 0x09, 0) > 1 << 60
        || m.get(&0xff04_de1b).is_some_and(|v| exact_varint(v).unwrap() > int(&m, 0x0b, 25) * 1000)
        || (reader_is_server && [0x00u64, 0x02, 0x0d, 0x10].iter().any(|id| m.contains_key(id)))
        || m.get(&0x0d).is_some_and(|v| v[24] == 0)
    {
        return TpRead::Err("illegal value");
    }
    if m.get(&0x0d).is_some_and(|v| v[..24].iter().all(|&x| x == 0)) {
        return TpRead::Either;
    }
    TpRead::Ok(m)
}
