//! Part 7 — decoders are total: arbitrary bytes and mutated valid encodings never panic, and what
//! the decoders accept agrees with the reference readers

use std::{net::SocketAddr, time::Instant};

use proto::verif_codec as hook;
use serde_json::{json, Value};

use crate::{cidtok, guard, h64, headers, hex, par_chunks, reference::{self as rf, TpRead}, tp, unhex, Acc, PartOut};

#[derive(Clone, Copy, Debug, PartialEq, Eq)]
pub(crate) enum Dec {
    Frames,
    FramesDebug,
    Header { cid_len: usize, grease: bool, sample: usize },
    Tp { server: bool },
    Token,
    /// Input is a token *plaintext*; it is sealed under the server's key first
    TokenPayload,
    CidLong,
}

impl Dec {
    fn name(&self) -> &'static str {
        match self {
            Self::Frames => "frames",
            Self::FramesDebug => "frames_debug",
            Self::Header { .. } => "header",
            Self::Tp { .. } => "transport_parameters",
            Self::Token => "token",
            Self::TokenPayload => "token_payload",
            Self::CidLong => "cid_decode_long",
        }
    }

    fn json(&self) -> Value {
        match *self {
            Self::Header { cid_len, grease, sample } => json!({"decoder": "header", "cid_len": cid_len, "grease": grease, "sample": sample}),
            Self::Tp { server } => json!({"decoder": "transport_parameters", "server": server}),
            other => json!({"decoder": other.name()}),
        }
    }

    fn from_json(v: &Value) -> Option<Self> {
        Some(match v["decoder"].as_str()? {
            "frames" => Self::Frames,
            "frames_debug" => Self::FramesDebug,
            "header" => Self::Header {
                cid_len: v["cid_len"].as_u64().unwrap_or(0) as usize,
                grease: v["grease"].as_bool().unwrap_or(false),
                sample: v["sample"].as_u64().unwrap_or(16) as usize,
            },
            "transport_parameters" => Self::Tp { server: v["server"].as_bool().unwrap_or(false) },
            "token" => Self::Token,
            "token_payload" => Self::TokenPayload,
            "cid_decode_long" => Self::CidLong,
            _ => return None,
        })
    }
}

/// Decoders every input is fed to
const ALL: [Dec; 12] = [
    Dec::Frames,
    Dec::FramesDebug,
    Dec::Header { cid_len: 0, grease: false, sample: 16 },
    Dec::Header { cid_len: 8, grease: false, sample: 16 },
    Dec::Header { cid_len: 20, grease: false, sample: 16 },
    Dec::Header { cid_len: 0, grease: true, sample: 0 },
    Dec::Header { cid_len: 8, grease: true, sample: 0 },
    Dec::Header { cid_len: 20, grease: false, sample: 0 },
    Dec::Tp { server: false },
    Dec::Tp { server: true },
    Dec::Token,
    Dec::CidLong,
];

fn same_frame(v: &hook::VFrame, r: &rf::RFrame) -> bool {
    v.name == r.name && v.nums == r.nums && v.bytes == r.bytes && v.bytes2 == r.bytes2 && v.ranges == r.ranges
}

fn remote() -> SocketAddr {
    "192.0.2.7:4433".parse().unwrap()
}

/// Feed `bytes` to one decoder: a panic is a violation; where a reference reader exists, what the
/// decoder accepts and returns must agree with it
pub(crate) fn feed(dec: Dec, bytes: &[u8], acc: &mut Acc, mut log: Option<&mut String>) {
    let rp = || {
        let mut v = dec.json();
        v["hex"] = json!(hex(bytes));
        json!({"part": "totality", "input": v})
    };
    acc.evals += 1;
    let show = || if bytes.len() > 80 { format!("{}.. ({} bytes)", hex(&bytes[..80]), bytes.len()) } else { hex(bytes) };
    macro_rules! run {
        ($e:expr) => {
            match guard(|| $e) {
                Ok(x) => x,
                Err(p) => {
                    let note = if dec == Dec::TokenPayload {
                        " [input is a token plaintext sealed under the server's own token key: reachable only by a token minted under that key, e.g. by another server version sharing it; token.rs decode_unix_secs adds the u64 seconds to UNIX_EPOCH unchecked]"
                    } else {
                        ""
                    };
                    acc.viol(format!("decoder-panic:{}", dec.name()), format!("{:?} on input {} panicked: {p}{note}", dec, show()), rp());
                    return;
                }
            }
        };
    }
    match dec {
        Dec::Frames => {
            let got = run!(hook::frames_decode_fields(bytes));
            let (rframes, rres) = rf::frames_parse(bytes);
            if let Some(log) = log.as_deref_mut() {
                log.push_str(&format!("real      {got:?}\nreference {rframes:?} {rres:?}\n"));
            }
            let agree = match (&got, rres) {
                (Ok(v), Ok(())) => v.len() == rframes.len() && v.iter().zip(&rframes).all(|(a, b)| same_frame(a, b)),
                (Err(_), Err(_)) => true,
                _ => false,
            };
            if !agree {
                acc.viol(
                    "frames-differential",
                    format!("payload {}: frame::Iter gives {:?}, the RFC reference gives {:?} {:?}", show(),
                        got.as_ref().map(|v| v.iter().map(|f| (f.name, &f.nums)).collect::<Vec<_>>()),
                        rframes.iter().map(|f| (f.name, &f.nums)).collect::<Vec<_>>(), rres),
                    rp(),
                );
            }
            if got.is_ok() {
                acc.fast[2] += 1;
            }
        }
        Dec::FramesDebug => {
            let _ = run!(hook::frames_decode(bytes));
        }
        Dec::Header { cid_len, grease, sample } => {
            let got = run!(hook::header_decode(bytes, cid_len, headers::versions(), grease, sample));
            if let Ok((d, rest)) = &got {
                acc.fast[3] += 1;
                // whatever the decoder accepts must be laid out as the reference parser sees it
                let r = rf::header_parse(bytes, cid_len);
                let want_rest = r.as_ref().ok().and_then(|r| (bytes.len() > r.packet_len).then(|| bytes[r.packet_len..].to_vec()));
                let agree = matches!(&r, Ok(r) if r.kind == d.kind && r.dcid == d.dcid && r.packet_len == d.packet_len
                    && (r.pn_len == 0 || (Some(r.pn_len) == d.pn_len && Some(r.pn_trunc) == d.pn_trunc))
                    && d.header_data.len() == r.header_len && bytes.get(r.header_len..r.packet_len) == Some(&d.payload[..]))
                    && rest == &want_rest;
                if let Some(log) = log.as_deref_mut() {
                    log.push_str(&format!("real      {d:?} rest {rest:?}\nreference {r:?}\n"));
                }
                if !agree {
                    acc.viol(
                        "header-differential",
                        format!("datagram {} (cid_len {cid_len}): decoder gives {} dcid {} packet_len {} rest {:?}, reference gives {r:?}",
                            show(), d.kind, hex(&d.dcid), d.packet_len, rest.as_ref().map(|x| x.len())),
                        rp(),
                    );
                }
            } else if let Some(log) = log.as_deref_mut() {
                log.push_str(&format!("real      {got:?}\n"));
            }
        }
        Dec::Tp { server } => {
            let got = run!(hook::tp_read(server, bytes));
            let reference = rf::tp_read(bytes, server);
            if let Some(log) = log.as_deref_mut() {
                log.push_str(&format!("real      {got:?}\nreference {reference:?}\n"));
            }
            if got.is_ok() {
                acc.fast[4] += 1;
            }
            match (&got, &reference) {
                (_, TpRead::Either) | (Err(_), TpRead::Err(_)) => {}
                (Ok(p), TpRead::Ok(m)) => {
                    if tp::tp_from_wire(m) != *p {
                        acc.viol("adjacent:tp-differential:value", format!("parameters {}: read gives {p:?}, reference gives {m:?}", show()), rp());
                    }
                }
                (Ok(p), TpRead::Err(e)) => {
                    // name the first parameter whose declared length the reader did not honour
                    let culprit = match rf::tp_parse(bytes) {
                        Err(_) => "structure".to_string(),
                        Ok(list) => list
                            .iter()
                            .find(|(id, v)| matches!(rf::tp_read(&rf::tp_unparse(&[(*id, v.clone())]), false), TpRead::Err("malformed parameter value")))
                            .map_or("legality".to_string(), |(id, _)| format!("{id:#x}")),
                    };
                    acc.viol(
                        format!("adjacent:tp-accepts-malformed:{culprit}"),
                        format!("parameters {} are malformed per RFC 9000 §18 ({e}) but TransportParameters::read accepts them as {}", show(), tp::tp_json(p)),
                        rp(),
                    )
                }
                (Err(e), TpRead::Ok(m)) => {
                    let nonminimal = m.values().any(|v| rf::vi_decode(v).is_some_and(|(x, n)| n == v.len() && rf::vi_size(x) != Some(n)));
                    acc.viol(
                        if nonminimal { "adjacent:tp-rejects-nonminimal-varint" } else { "adjacent:tp-rejects-wellformed" },
                        format!("parameters {} are well-formed and legal per RFC 9000 §16/§18 ({m:x?}) but TransportParameters::read fails with {e}", show()),
                        rp(),
                    )
                }
            }
        }
        Dec::Token => {
            let got = run!(hook::token_check(cidtok::token_key(0), bytes, &[1, 2, 3, 4], remote(), 1000, 0, 0));
            if let Some(log) = log.as_deref_mut() {
                log.push_str(&format!("real      {got:?}\n"));
            }
        }
        Dec::TokenPayload => {
            let key = cidtok::token_key(0);
            let sealed = cidtok::seal_token(&*key, bytes, &[7; 16]);
            let got = run!(hook::token_check(key, &sealed, &[1, 2, 3, 4], remote(), 1000, 0, 0));
            if let Some(log) = log.as_deref_mut() {
                log.push_str(&format!("sealed    {}\nreal      {got:?}\n", hex(&sealed)));
            }
            if matches!(&got, Ok(t) if t.validated) || got.is_err() {
                acc.fast[5] += 1; // payload decoded as a token
            }
        }
        Dec::CidLong => {
            let got = run!(hook::cid_decode_long(bytes));
            let want = bytes.first().and_then(|&n| {
                let n = usize::from(n);
                (n <= 20 && bytes.len() > n).then(|| (bytes[1..1 + n].to_vec(), n + 1))
            });
            if got != want {
                acc.viol("cid-differential", format!("decode_long({}) = {got:?}, reference {want:?}", show()), rp());
            }
        }
    }
}

fn feed_all(bytes: &[u8], acc: &mut Acc) {
    acc.hashes.push(h64(7, bytes));
    for dec in ALL {
        feed(dec, bytes, acc, None);
    }
}

/// Decoders fed with every 4-byte string (thorough only). The frame decoder only gets the strings
/// whose first byte is below 0x80 (frame type encoded on one or two bytes): above that the whole
/// string is a single 4- or 8-byte frame type. No 4-byte string can be a complete packet (header
/// protection needs four bytes after the packet number offset), so the header decoder is left out.
const FOUR: [Dec; 3] = [Dec::Frames, Dec::Tp { server: false }, Dec::CidLong];

/// Positions mutated / lengths truncated to: everything for short inputs, both ends for long ones
fn positions(len: usize) -> Vec<usize> {
    if len <= 128 {
        (0..len).collect()
    } else {
        (0..96).chain(len - 32..len).collect()
    }
}

/// Every single-byte mutation (0x00, 0xff, ^0x01, ^0x80) and every truncation of `orig`
fn for_each_mutant(orig: &[u8], mut f: impl FnMut(&[u8])) {
    let mut m = orig.to_vec();
    for pos in positions(orig.len()) {
        let o = orig[pos];
        let mut seen = [o, o, o, o];
        for (k, x) in [0x00, 0xff, o ^ 0x01, o ^ 0x80].into_iter().enumerate() {
            if x == o || seen[..k].contains(&x) {
                continue;
            }
            seen[k] = x;
            m[pos] = x;
            f(&m);
        }
        m[pos] = o;
        f(&orig[..pos]);
    }
}

enum Job<'a> {
    Strings { len: usize, first: u16 },
    /// 4-byte strings starting with these two bytes, to the `FOUR` decoders
    Strings4 { first: u8, second: u8 },
    /// Small ACK frames on a grid: type, largest, count and first range given; gaps and lengths enumerated
    AckGrid { ty: u8, largest: u8, count: u8, first_range: u8 },
    PayloadStrings { len: usize, first: u16 },
    Corpus(&'a [(&'static str, Vec<u8>)]),
    TokenPlain(&'a [Vec<u8>]),
}

fn strings(len: usize, first: u16, mut f: impl FnMut(&[u8])) {
    if len == 0 {
        f(&[]);
        return;
    }
    let mut s = vec![0u8; len];
    s[0] = first as u8;
    let total = 1u64 << (8 * (len - 1));
    for i in 0..total {
        for k in 1..len {
            s[k] = (i >> (8 * (len - 1 - k))) as u8;
        }
        f(&s);
    }
}

pub fn run(thorough: bool, deadline: Instant, corpus: &[(&'static str, Vec<u8>)]) -> PartOut {
    let max_len = if thorough { 3 } else { 2 };
    let cap = if thorough { 20_000 } else { 2_000 };
    // deterministic subsample: every j-th item of every kind
    let mut by_kind = std::collections::BTreeMap::<&str, Vec<&(&'static str, Vec<u8>)>>::new();
    for item in corpus {
        by_kind.entry(item.0).or_default().push(item);
    }
    let mut picked: Vec<(&'static str, Vec<u8>)> = Vec::new();
    let mut corpus_detail = serde_json::Map::new();
    let per_kind_cap = cap / by_kind.len().max(1);
    for (kind, items) in &by_kind {
        let j = items.len().div_ceil(per_kind_cap).max(1);
        let before = picked.len();
        picked.extend(items.iter().step_by(j).map(|x| (**x).clone()));
        corpus_detail.insert(kind.to_string(), json!({"available": items.len(), "every_jth": j, "mutated": picked.len() - before}));
    }
    // token plaintexts recovered with the public AeadKey trait
    let key = cidtok::token_key(0);
    let token_cap = if thorough { 400 } else { 60 };
    let tokens: Vec<&Vec<u8>> = by_kind.get("token").map(|v| v.iter().map(|x| &x.1).collect()).unwrap_or_default();
    let tj = tokens.len().div_ceil(token_cap).max(1);
    let plains: Vec<Vec<u8>> = tokens.iter().step_by(tj).filter_map(|t| cidtok::open_token(&*key, t).map(|x| x.0)).collect();

    let mut jobs = Vec::new();
    let mut n_strings = 0u64;
    for len in 0..=max_len {
        if len == 0 {
            jobs.push(Job::Strings { len, first: 0 });
            n_strings += 1;
        } else {
            for first in 0..256 {
                jobs.push(Job::Strings { len, first });
            }
            n_strings += 1 << (8 * len);
        }
    }
    if thorough {
        for first in 0..=255 {
            for second in 0..=255 {
                jobs.push(Job::Strings4 { first, second });
            }
        }
    }
    for ty in [2u8, 3] {
        for largest in 0..8 {
            for count in 0..4 {
                for first_range in 0..8 {
                    jobs.push(Job::AckGrid { ty, largest, count, first_range });
                }
            }
        }
    }
    let payload_max = if thorough { 2 } else { 1 };
    for len in 0..=payload_max {
        if len == 0 {
            jobs.push(Job::PayloadStrings { len, first: 0 });
        } else {
            for first in 0..256 {
                jobs.push(Job::PayloadStrings { len, first });
            }
        }
    }
    for chunk in picked.chunks(16) {
        jobs.push(Job::Corpus(chunk));
    }
    for chunk in plains.chunks(4) {
        jobs.push(Job::TokenPlain(chunk));
    }
    let mut acc = par_chunks(jobs, deadline, |job, acc| match job {
        Job::Strings { len, first } => strings(*len, *first, |s| {
            acc.fast[6] += 1;
            acc.distinct_arith += 1;
            for dec in ALL {
                feed(dec, s, acc, None);
            }
        }),
        Job::Strings4 { first, second } => {
            let mut s = [*first, *second, 0, 0];
            for (k, dec) in FOUR.into_iter().enumerate() {
                if dec == Dec::Frames && *first >= 0x80 {
                    continue;
                }
                let t = Instant::now();
                for x in 0..=0xffffu16 {
                    s[2..].copy_from_slice(&x.to_be_bytes());
                    feed(dec, &s, acc, None);
                }
                acc.fast[12 + k] += t.elapsed().as_micros() as u64;
            }
            acc.fast[10] += 1 << 16;
            acc.distinct_arith += 1 << 16;
        }
        Job::AckGrid { ty, largest, count, first_range } => {
            // ty largest delay=0 count first (gap len)(gap len) [ect0 ect1 ce]; bytes past the
            // declared ranges read as further frames
            for x in 0..8u32.pow(4) {
                let g = |k: u32| ((x >> (3 * k)) & 7) as u8;
                let mut s = vec![*ty, *largest, 0, *count, *first_range, g(0), g(1), g(2), g(3)];
                if *ty == 3 {
                    s.extend([1, 2, 3]);
                }
                feed(Dec::Frames, &s, acc, None);
                acc.fast[11] += 1;
                acc.distinct_arith += 1;
            }
        }
        Job::PayloadStrings { len, first } => strings(*len, *first, |s| {
            acc.fast[7] += 1;
            acc.hashes.push(h64(71, s));
            feed(Dec::TokenPayload, s, acc, None)
        }),
        Job::Corpus(items) => {
            for (_, bytes) in *items {
                for_each_mutant(bytes, |m| {
                    acc.fast[8] += 1;
                    feed_all(m, acc)
                });
            }
        }
        Job::TokenPlain(items) => {
            for plain in *items {
                let mut inputs = Vec::new();
                for_each_mutant(plain, |m| inputs.push(m.to_vec()));
                for extra in [0x00u8, 0xff] {
                    inputs.push([plain.clone(), vec![extra]].concat());
                }
                inputs.push(plain.clone());
                for m in inputs {
                    acc.fast[9] += 1;
                    acc.hashes.push(h64(72, &m));
                    feed(Dec::TokenPayload, &m, acc, None);
                }
            }
        }
    });
    acc.sample(|| json!({"decoders": ALL.iter().map(Dec::json).collect::<Vec<_>>()}));
    let f = acc.fast;
    let detail = json!({
        "byte_strings": format!("every byte string of length 0..={max_len} ({n_strings}) to every decoder"),
        "token_plaintexts": format!("every plaintext of length 0..={payload_max}, sealed with the server key, to the token decoder"),
        "corpus": corpus_detail,
        "corpus_cap": cap,
        "corpus_note": "valid encodings from parts 3-6 (headers with payloads <= 40 bytes, frames <= 128 bytes, transport parameters, tokens, long-form CIDs), subsampled per kind by taking every j-th; each is mutated at every position (first 96 and last 32 positions if longer than 128 bytes) to 0x00, 0xff, ^0x01, ^0x80 and truncated to every such length; every mutant goes to every decoder",
        "token_plaintexts_mutated": plains.len(),
        "four_byte_strings": if thorough { json!({"count": f[10], "decoders": FOUR.iter().map(Dec::json).collect::<Vec<_>>(),
            "cpu_seconds_per_decoder": (0..FOUR.len()).map(|k| f[12 + k] as f64 / 1e6).collect::<Vec<_>>()}) } else { json!("thorough only") },
        "ack_grid": format!("{} ACK / ACK_ECN frames: largest, first range, two (gap, length) pairs each 0..8, declared range count 0..4 (so also counts the bytes do not cover), delay 0, to the frame decoder", f[11]),
        "inputs": {"strings": f[6], "four_byte_strings": f[10], "ack_grid": f[11], "sealed_short_plaintexts": f[7], "corpus_mutants": f[8], "token_plaintext_mutants": f[9]},
        "accepted": {"frames_ok": f[2], "header_ok": f[3], "transport_parameters_ok": f[4], "token_payload_decoded": f[5]},
        "decoders": ALL.iter().map(Dec::json).collect::<Vec<_>>(),
        "oracles": [
            "no decoder panics (catch_unwind; overflow checks are on in this build)",
            "frames: frame::Iter and the RFC reference decoder agree on accept/reject and on every field of every frame",
            "headers: whatever PartialDecode accepts has the form, dcid, packet boundary, packet number and rest the RFC reference parser computes",
            "long-form CIDs: decode_long agrees with the reference",
            "transport parameters (reported as adjacent:*): read() and an RFC 9000 §18 reference reader agree on accept/reject and values",
        ],
        "distinct_note": "distinct = enumerated strings counted arithmetically (pairwise distinct by construction) + distinct mutants, 64-bit hashed",
    });
    acc.finish("totality", detail).0
}

pub(crate) fn replay(input: &Value, acc: &mut Acc) -> String {
    let Some(dec) = Dec::from_json(input) else { return "unknown decoder".into() };
    let bytes = unhex(input["hex"].as_str().unwrap_or(""));
    let mut log = String::new();
    feed(dec, &bytes, acc, Some(&mut log));
    log
}
