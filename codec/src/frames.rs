//! Part 4 — frames (RFC 9000 §19, RFC 9221, draft-ietf-quic-ack-frequency)

use std::time::Instant;

use proto::{coding::Codec, verif_codec as hook, StreamId, VarInt};
use serde_json::{json, Value};

use crate::{guard, h64, hex, par_chunks, pattern, reference::{self as rf, RFrame}, unhex, Acc, PartOut};

const MAX: u64 = (1 << 62) - 1;
/// Boundary values of a varint field: both sides of every encoding-size boundary
const V: [u64; 9] = [0, 1, 63, 64, 16383, 16384, (1 << 30) - 1, 1 << 30, MAX];
const DATA_LENS: [usize; 5] = [0, 1, 63, 64, 1000];

/// One frame to encode: type name plus plain arguments
#[derive(Clone, Debug, Default)]
pub(crate) struct FSpec {
    pub ty: String,
    pub n: Vec<u64>,
    pub data: Vec<u8>,
    pub data2: Vec<u8>,
    /// ACK ranges, half-open, as `ArrayRangeSet` wants them
    pub ranges: Vec<(u64, u64)>,
    /// STREAM / DATAGRAM: write an explicit length
    pub with_length: bool,
    /// CONNECTION_CLOSE / APPLICATION_CLOSE: space budget handed to the encoder
    pub max_len: usize,
}

fn spec(ty: &str, n: &[u64]) -> FSpec {
    FSpec { ty: ty.to_string(), n: n.to_vec(), ..FSpec::default() }
}

pub(crate) fn spec_json(s: &FSpec) -> Value {
    json!({"ty": s.ty, "n": s.n, "data": hex(&s.data), "data2": hex(&s.data2), "ranges": s.ranges,
           "with_length": s.with_length, "max_len": s.max_len})
}

pub(crate) fn spec_from_json(v: &Value) -> FSpec {
    FSpec {
        ty: v["ty"].as_str().unwrap_or("").to_string(),
        n: v["n"].as_array().map(|a| a.iter().filter_map(Value::as_u64).collect()).unwrap_or_default(),
        data: unhex(v["data"].as_str().unwrap_or("")),
        data2: unhex(v["data2"].as_str().unwrap_or("")),
        ranges: v["ranges"]
            .as_array()
            .map(|a| a.iter().map(|r| (r[0].as_u64().unwrap_or(0), r[1].as_u64().unwrap_or(0))).collect())
            .unwrap_or_default(),
        with_length: v["with_length"].as_bool().unwrap_or(false),
        max_len: v["max_len"].as_u64().unwrap_or(1200) as usize,
    }
}

/// Frame types whose encoder is not a function in frame.rs but inline `buf.write(..)` calls in the
/// connection state machine; they are rebuilt here from the real `FrameType` bytes and the public
/// `Codec` impls exactly as that code does
const INLINE_ENCODED: [&str; 14] = [
    "PADDING", "PING", "HANDSHAKE_DONE", "IMMEDIATE_ACK", "MAX_DATA", "MAX_STREAM_DATA", "MAX_STREAMS",
    "DATA_BLOCKED", "STREAM_DATA_BLOCKED", "STREAMS_BLOCKED", "RETIRE_CONNECTION_ID", "PATH_CHALLENGE",
    "PATH_RESPONSE", "-",
];

fn var(out: &mut Vec<u8>, x: u64) {
    VarInt::from_u64(x).unwrap().encode(out);
}

fn sid(out: &mut Vec<u8>, x: u64) {
    StreamId::from(VarInt::from_u64(x).unwrap()).encode(out);
}

/// Call the real encoder for `s`. Second value: what the encoder's own `size()` claims, if it has one.
pub(crate) fn encode(s: &FSpec) -> Result<(Vec<u8>, Option<usize>), String> {
    let n = |i: usize| s.n.get(i).copied().unwrap_or(0);
    guard(|| {
        let ty = |name: &str| hook::frame_type_bytes(name).expect("known frame type");
        match s.ty.as_str() {
            "STREAM" => (hook::enc_stream(n(0), n(1), n(2) != 0, &s.data, s.with_length), None),
            "ACK" => {
                let ecn = (n(1) != 0).then(|| (n(2), n(3), n(4)));
                (hook::enc_ack(n(0), &s.ranges, ecn), None)
            }
            "RESET_STREAM" => (hook::enc_reset_stream(n(0), n(1), n(2)), None),
            "STOP_SENDING" => (hook::enc_stop_sending(n(0), n(1)), None),
            "CRYPTO" => (hook::enc_crypto(n(0), &s.data), None),
            "NEW_TOKEN" => {
                let (b, size) = hook::enc_new_token(&s.data);
                (b, Some(size))
            }
            "NEW_CONNECTION_ID" => {
                let mut token = [0u8; 16];
                token.copy_from_slice(&s.data2);
                (hook::enc_new_connection_id(n(0), n(1), &s.data, token), None)
            }
            "CONNECTION_CLOSE" => {
                let frame_type = (n(1) != 0).then(|| n(2));
                (hook::enc_close_connection(n(0), frame_type, &s.data, s.max_len), None)
            }
            "APPLICATION_CLOSE" => (hook::enc_close_application(n(0), &s.data, s.max_len), None),
            "DATAGRAM" => {
                let (b, size) = hook::enc_datagram(&s.data, s.with_length);
                (b, Some(size))
            }
            "ACK_FREQUENCY" => (hook::enc_ack_frequency(n(0), n(1), n(2), n(3)), None),
            // inline encoders
            "PADDING" | "PING" | "HANDSHAKE_DONE" | "IMMEDIATE_ACK" => (ty(&s.ty), None),
            "MAX_DATA" | "DATA_BLOCKED" | "RETIRE_CONNECTION_ID" => {
                let mut b = ty(&s.ty);
                var(&mut b, n(0));
                (b, None)
            }
            "MAX_STREAM_DATA" | "STREAM_DATA_BLOCKED" => {
                let mut b = ty(&s.ty);
                sid(&mut b, n(0));
                var(&mut b, n(1));
                (b, None)
            }
            "MAX_STREAMS" | "STREAMS_BLOCKED" => {
                let mut b = ty(&format!("{}_{}", s.ty, if n(0) == 0 { "BIDI" } else { "UNI" }));
                var(&mut b, n(1));
                (b, None)
            }
            "PATH_CHALLENGE" | "PATH_RESPONSE" => {
                let mut b = ty(&s.ty);
                n(0).encode(&mut b);
                (b, None)
            }
            other => panic!("unknown frame spec {other}"),
        }
    })
}

/// What a decoder must produce for `s` (CLOSE reasons may be legitimately truncated; see caller)
fn expected(s: &FSpec) -> RFrame {
    let n = |i: usize| s.n.get(i).copied().unwrap_or(0);
    let mut f = RFrame::default();
    match s.ty.as_str() {
        "PADDING" => f.name = "Padding",
        "PING" => f.name = "Ping",
        "HANDSHAKE_DONE" => f.name = "HandshakeDone",
        "IMMEDIATE_ACK" => f.name = "ImmediateAck",
        "STREAM" => {
            f.name = "Stream";
            f.nums = vec![n(0), n(1), n(2)];
            f.bytes = s.data.clone();
        }
        "ACK" => {
            f.name = "Ack";
            let mut r = s.ranges.clone();
            r.sort_unstable_by(|a, b| b.cmp(a));
            f.ranges = r.iter().map(|&(lo, hi)| (lo, hi - 1)).collect();
            f.nums = vec![f.ranges[0].1, n(0)];
            if n(1) != 0 {
                f.nums.extend([1, n(2), n(3), n(4)]);
            } else {
                f.nums.push(0);
            }
        }
        "RESET_STREAM" => {
            f.name = "ResetStream";
            f.nums = vec![n(0), n(1), n(2)];
        }
        "STOP_SENDING" => {
            f.name = "StopSending";
            f.nums = vec![n(0), n(1)];
        }
        "CRYPTO" => {
            f.name = "Crypto";
            f.nums = vec![n(0)];
            f.bytes = s.data.clone();
        }
        "NEW_TOKEN" => {
            f.name = "NewToken";
            f.bytes = s.data.clone();
        }
        "MAX_DATA" => {
            f.name = "MaxData";
            f.nums = vec![n(0)];
        }
        "MAX_STREAM_DATA" => {
            f.name = "MaxStreamData";
            f.nums = vec![n(0), n(1)];
        }
        "MAX_STREAMS" => {
            f.name = "MaxStreams";
            f.nums = vec![n(0), n(1)];
        }
        "DATA_BLOCKED" => {
            f.name = "DataBlocked";
            f.nums = vec![n(0)];
        }
        "STREAM_DATA_BLOCKED" => {
            f.name = "StreamDataBlocked";
            f.nums = vec![n(0), n(1)];
        }
        "STREAMS_BLOCKED" => {
            f.name = "StreamsBlocked";
            f.nums = vec![n(0), n(1)];
        }
        "NEW_CONNECTION_ID" => {
            f.name = "NewConnectionId";
            f.nums = vec![n(0), n(1)];
            f.bytes = s.data.clone();
            f.bytes2 = s.data2.clone();
        }
        "RETIRE_CONNECTION_ID" => {
            f.name = "RetireConnectionId";
            f.nums = vec![n(0)];
        }
        "PATH_CHALLENGE" => {
            f.name = "PathChallenge";
            f.nums = vec![n(0)];
        }
        "PATH_RESPONSE" => {
            f.name = "PathResponse";
            f.nums = vec![n(0)];
        }
        "CONNECTION_CLOSE" => {
            f.name = "ConnectionClose";
            // RFC 9000 §19.19: frame type 0 means "unknown", which is what None is
            f.nums = if n(1) != 0 && n(2) != 0 { vec![n(0), 1, n(2)] } else { vec![n(0), 0] };
            f.bytes = s.data.clone();
        }
        "APPLICATION_CLOSE" => {
            f.name = "ApplicationClose";
            f.nums = vec![n(0)];
            f.bytes = s.data.clone();
        }
        "DATAGRAM" => {
            f.name = "Datagram";
            f.bytes = s.data.clone();
        }
        "ACK_FREQUENCY" => {
            f.name = "AckFrequency";
            f.nums = vec![n(0), n(1), n(2), n(3)];
        }
        _ => {}
    }
    f
}

fn absorbs_tail(s: &FSpec) -> bool {
    (s.ty == "STREAM" || s.ty == "DATAGRAM") && !s.with_length
}

fn is_close(s: &FSpec) -> bool {
    s.ty == "CONNECTION_CLOSE" || s.ty == "APPLICATION_CLOSE"
}

fn same(v: &hook::VFrame, r: &RFrame) -> bool {
    v.name == r.name && v.nums == r.nums && v.bytes == r.bytes && v.bytes2 == r.bytes2 && v.ranges == r.ranges
}

fn show(r: &RFrame) -> String {
    let b = |x: &[u8]| if x.len() > 24 { format!("{}..({} bytes)", hex(&x[..24]), x.len()) } else { hex(x) };
    format!("{} nums={:?} bytes={} bytes2={} ranges={:?}", r.name, r.nums, b(&r.bytes), b(&r.bytes2), r.ranges)
}

fn show_v(v: &hook::VFrame) -> String {
    show(&RFrame { name: v.name, nums: v.nums.clone(), bytes: v.bytes.clone(), bytes2: v.bytes2.clone(), ranges: v.ranges.clone() })
}

/// Debug prefix of `frame::Frame` for a rendered variant name
fn debug_prefix(name: &str) -> &str {
    match name {
        "ConnectionClose" => "Close(Connection(",
        "ApplicationClose" => "Close(Application(",
        other => other,
    }
}

fn check_one(s: &FSpec, acc: &mut Acc, mut log: Option<&mut String>) -> Option<Vec<u8>> {
    let ty = s.ty.as_str();
    let rp = || json!({"part": "frames", "input": spec_json(s)});
    let (enc, claimed_size) = match encode(s) {
        Ok(x) => x,
        Err(p) => {
            acc.viol(format!("encoder-panic:frame:{ty}"), format!("encoding {} panicked: {p}", spec_json(s)), rp());
            return None;
        }
    };
    acc.evals += 1;
    acc.hashes.push(h64(4, &enc));
    let show_enc = || hex(&enc[..enc.len().min(64)]);
    if let Some(size) = claimed_size {
        if size != enc.len() {
            acc.viol(format!("frame-size:{ty}"), format!("{}: size() = {size}, encoded length {}", spec_json(s), enc.len()), rp());
        }
    }
    let mut want = expected(s);
    // (a) reference decoder on the real encoder's bytes
    let (rframes, rres) = rf::frames_parse(&enc);
    acc.evals += 1;
    if is_close(s) {
        // the encoder may cut the reason to fit max_len: accept any prefix, but only when the
        // budget is actually tight, and require the frame to respect the budget
        if let (Some(r), Ok(())) = (rframes.first(), rres) {
            let roomy = s.data.len() + 3 + 8 + 8 <= s.max_len;
            if r.name == want.name && s.data.starts_with(&r.bytes) && (!roomy || r.bytes.len() == s.data.len()) {
                if r.bytes.len() < s.data.len() {
                    acc.fast[0] += 1; // truncated reasons
                }
                want.bytes = r.bytes.clone();
            }
        }
        if enc.len() > s.max_len {
            acc.viol(
                format!("adjacent:close-exceeds-max-len:{ty}"),
                format!(
                    "{}::encode(out, max_len = {}) wrote {} bytes for error code {} and a {}-byte reason (exceeds the budget by {})",
                    if ty == "CONNECTION_CLOSE" { "ConnectionClose" } else { "ApplicationClose" },
                    s.max_len, enc.len(), s.n[0], s.data.len(), enc.len() - s.max_len
                ),
                rp(),
            );
        }
    }
    if let Some(log) = log.as_deref_mut() {
        log.push_str(&format!("encoded   {}\nexpected  {}\nreference {:?} {:?}\n", show_enc(), show(&want), rframes.iter().map(show).collect::<Vec<_>>(), rres));
    }
    if rres.is_err() || rframes.len() != 1 || rframes[0] != want {
        acc.viol(
            format!("frame-encode:{ty}"),
            format!(
                "{} encodes as {}; per RFC that reads as {:?} ({:?}), expected [{}]",
                spec_json(s), show_enc(), rframes.iter().map(show).collect::<Vec<_>>(), rres, show(&want)
            ),
            rp(),
        );
    }
    // (b) real decoder on the real encoder's bytes, field by field
    acc.evals += 1;
    match guard(|| hook::frames_decode_fields(&enc)) {
        Err(p) => acc.viol(format!("decoder-panic:frames:{ty}"), format!("decoding {} panicked: {p}", show_enc()), rp()),
        Ok(got) => {
            if let Some(log) = log.as_deref_mut() {
                log.push_str(&format!("real      {:?}\n", got.as_ref().map(|v| v.iter().map(show_v).collect::<Vec<_>>())));
            }
            let ok = matches!(&got, Ok(v) if v.len() == 1 && same(&v[0], &want));
            if !ok {
                acc.viol(
                    format!("frame-roundtrip:{ty}"),
                    format!(
                        "{} encoded as {} decodes as {:?}, expected [{}]",
                        spec_json(s), show_enc(), got.as_ref().map(|v| v.iter().map(show_v).collect::<Vec<_>>()), show(&want)
                    ),
                    rp(),
                );
            }
        }
    }
    // (c) the Debug rendering path: exactly one frame of the right variant
    acc.evals += 1;
    match guard(|| hook::frames_decode(&enc)) {
        Err(p) => acc.viol(format!("decoder-panic:frames-debug:{ty}"), format!("Debug-rendering {} panicked: {p}", show_enc()), rp()),
        Ok(got) => {
            let ok = matches!(&got, Ok(v) if v.len() == 1 && v[0].starts_with(debug_prefix(want.name)));
            if !ok {
                acc.viol(format!("frame-roundtrip:{ty}"), format!("{} Debug-renders as {got:?}", show_enc()), rp());
            }
        }
    }
    // (d) frame boundary: a PING appended after the frame must come out as a separate frame,
    // except after the two length-less forms, which extend to the end of the packet
    let mut enc2 = enc.clone();
    enc2.push(0x01);
    let mut want2 = vec![want.clone()];
    if absorbs_tail(s) {
        want2[0].bytes.push(0x01);
    } else {
        want2.push(RFrame { name: "Ping", ..RFrame::default() });
    }
    acc.evals += 1;
    match guard(|| hook::frames_decode_fields(&enc2)) {
        Err(p) => acc.viol(format!("decoder-panic:frames:{ty}"), format!("decoding {}01 panicked: {p}", show_enc()), rp()),
        Ok(got) => {
            let ok = matches!(&got, Ok(v) if v.len() == want2.len() && v.iter().zip(&want2).all(|(a, b)| same(a, b)));
            let (r2, r2res) = rf::frames_parse(&enc2);
            if !ok || r2res.is_err() || r2 != want2 {
                acc.viol(
                    format!("frame-boundary:{ty}"),
                    format!(
                        "{} followed by PING decodes as {:?} (reference {:?}), expected {:?}",
                        show_enc(), got.as_ref().map(|v| v.iter().map(show_v).collect::<Vec<_>>()),
                        r2.iter().map(show).collect::<Vec<_>>(), want2.iter().map(show).collect::<Vec<_>>()
                    ),
                    rp(),
                );
            }
        }
    }
    Some(enc)
}

/// ACK shapes: up to `max_ranges` ranges with first-range / gap / length fields from `fields`
fn ack_shapes(max_ranges: usize, fields: &[u64]) -> Vec<(u64, Vec<(u64, u64)>)> {
    let mut shapes: Vec<(u64, Vec<(u64, u64)>)> = fields.iter().map(|&f| (f, vec![])).collect();
    let mut out = shapes.clone();
    for _ in 1..max_ranges {
        let mut next = Vec::new();
        for (f, more) in &shapes {
            for &g in fields {
                for &l in fields {
                    let mut m = more.clone();
                    m.push((g, l));
                    next.push((*f, m));
                }
            }
        }
        out.extend(next.iter().cloned());
        shapes = next;
    }
    out
}

fn all_specs() -> Vec<FSpec> {
    let mut out = Vec::new();
    for ty in ["PADDING", "PING", "HANDSHAKE_DONE", "IMMEDIATE_ACK"] {
        out.push(spec(ty, &[]));
    }
    // STREAM
    for &id in &V {
        for &offset in &V {
            for fin in 0..2 {
                for &len in &DATA_LENS {
                    if offset + len as u64 > MAX {
                        continue; // §19.8: offset + length cannot exceed 2^62-1
                    }
                    for with_length in [false, true] {
                        out.push(FSpec { data: pattern(len, 0x51), with_length, ..spec("STREAM", &[id, offset, fin]) });
                    }
                }
            }
        }
    }
    // ACK
    let fields = [0u64, 1, 63, 64];
    for (first, more) in ack_shapes(3, &fields) {
        let span: u64 = first + more.iter().map(|(g, l)| g + 2 + l).sum::<u64>();
        let mut largests = vec![span, 16383, 16384, 1 << 30, MAX];
        largests.retain(|&l| l >= span);
        largests.dedup();
        for &largest in &largests {
            let mut ranges = Vec::new();
            let mut hi = largest;
            let mut lo = hi - first;
            ranges.push((lo, hi + 1));
            for &(g, l) in &more {
                hi = lo - g - 2;
                lo = hi - l;
                ranges.push((lo, hi + 1));
            }
            for delay in [0u64, 63, 64, MAX] {
                for ecn in [None, Some((0u64, 0u64, 0u64)), Some((63, 64, 16384)), Some((MAX, MAX, MAX))] {
                    let n = match ecn {
                        None => vec![delay, 0],
                        Some((a, b, c)) => vec![delay, 1, a, b, c],
                    };
                    out.push(FSpec { ranges: ranges.clone(), ..spec("ACK", &n) });
                }
            }
        }
    }
    // a long ACK: 64 and 200 single-packet ranges
    for count in [64u64, 200] {
        let ranges: Vec<(u64, u64)> = (0..count).map(|i| (10 + 3 * i, 11 + 3 * i)).collect();
        out.push(FSpec { ranges, ..spec("ACK", &[7, 0]) });
    }
    for &a in &V {
        for &b in &V {
            for &c in &V {
                out.push(spec("RESET_STREAM", &[a, b, c]));
            }
            out.push(spec("STOP_SENDING", &[a, b]));
            out.push(spec("MAX_STREAM_DATA", &[a, b]));
            out.push(spec("STREAM_DATA_BLOCKED", &[a, b]));
        }
        out.push(spec("MAX_DATA", &[a]));
        out.push(spec("DATA_BLOCKED", &[a]));
        out.push(spec("RETIRE_CONNECTION_ID", &[a]));
        for dir in 0..2 {
            out.push(spec("MAX_STREAMS", &[dir, a]));
            out.push(spec("STREAMS_BLOCKED", &[dir, a]));
        }
        for &len in &DATA_LENS {
            out.push(FSpec { data: pattern(len, 0x61), ..spec("CRYPTO", &[a]) });
        }
    }
    for &len in &DATA_LENS {
        out.push(FSpec { data: pattern(len, 0x71), ..spec("NEW_TOKEN", &[]) });
        for with_length in [false, true] {
            out.push(FSpec { data: pattern(len, 0x81), with_length, ..spec("DATAGRAM", &[]) });
        }
    }
    // NEW_CONNECTION_ID: retire_prior_to <= sequence (§19.15), CID length 1..=20
    for &seq in &V {
        for &rpt in V.iter().filter(|&&r| r <= seq) {
            for len in 1..=20usize {
                for token_seed in [0x00u8, 0xee] {
                    out.push(FSpec { data: pattern(len, 0x91), data2: pattern(16, token_seed), ..spec("NEW_CONNECTION_ID", &[seq, rpt]) });
                }
            }
        }
    }
    for x in [0u64, 1, 0x0123_4567_89ab_cdef, 1 << 62, 1 << 63, u64::MAX] {
        out.push(spec("PATH_CHALLENGE", &[x]));
        out.push(spec("PATH_RESPONSE", &[x]));
    }
    // CLOSE: generous budget, and a budget that forces the reason to be cut
    for &code in &V {
        for reason_len in [0usize, 1, 100, 2000] {
            for max_len in [1200usize, 40] {
                out.push(FSpec { data: pattern(reason_len, 0x20), max_len, ..spec("APPLICATION_CLOSE", &[code]) });
                out.push(FSpec { data: pattern(reason_len, 0x20), max_len, ..spec("CONNECTION_CLOSE", &[code, 0]) });
                for &ft in &V {
                    out.push(FSpec { data: pattern(reason_len, 0x20), max_len, ..spec("CONNECTION_CLOSE", &[code, 1, ft]) });
                }
            }
        }
    }
    for &a in &V {
        for &b in &V {
            for &c in &V {
                for &d in &V {
                    out.push(spec("ACK_FREQUENCY", &[a, b, c, d]));
                }
            }
        }
    }
    out
}

pub fn run(_thorough: bool, deadline: Instant) -> (PartOut, Vec<(&'static str, Vec<u8>)>) {
    let specs = all_specs();
    let mut by_type = std::collections::BTreeMap::new();
    for s in &specs {
        *by_type.entry(s.ty.clone()).or_insert(0u64) += 1;
    }
    let chunks: Vec<&[FSpec]> = specs.chunks(256).collect();
    let mut acc = par_chunks(chunks, deadline, |chunk, acc| {
        for s in *chunk {
            if let Some(enc) = check_one(s, acc, None) {
                if enc.len() <= 128 {
                    acc.corpus.push(("frame", enc));
                }
            }
        }
    });
    let mut seen = std::collections::BTreeSet::new();
    for s in &specs {
        if seen.insert(s.ty.clone()) && seen.len() % 4 == 1 {
            if let Ok((enc, _)) = encode(s) {
                acc.sample(|| json!({"spec": spec_json(s), "encoding": hex(&enc[..enc.len().min(48)])}));
            }
        }
    }
    let truncated = acc.fast[0];
    let detail = json!({
        "specs": specs.len(),
        "specs_by_type": by_type,
        "varint_field_values": V,
        "data_lengths": DATA_LENS,
        "ack": "1..=3 ranges, first-range/gap/length fields from {0,1,63,64}, largest from {exact span, 16383, 16384, 2^30, 2^62-1}, delay {0,63,64,2^62-1}, ECN {none, zeros, mixed, max}; plus 64- and 200-range ACKs",
        "close": "error code x (frame type none / each boundary value) x reason length {0,1,100,2000} x max_len {1200, 40}",
        "close_reasons_truncated_by_encoder": truncated,
        "oracles": [
            "(a) reference RFC decoder on the real encoder's bytes yields exactly one frame with exactly the input fields",
            "(b) real decoder (frame::Iter), rendered field by field by the hook, yields exactly one frame with exactly the input fields",
            "(c) real decoder's Debug rendering: exactly one item, right variant",
            "(d) frame followed by a PING byte: real and reference decoders yield [frame, Ping] (length-less STREAM/DATAGRAM absorb the byte)",
            "size() of NEW_TOKEN and DATAGRAM equals the encoded length; CLOSE frames respect max_len (reported as adjacent:*)",
        ],
        "weaker_oracle_types": {
            "types": INLINE_ENCODED[..13],
            "why": "quinn has no encoder function for these: they are written inline in connection/mod.rs and streams/state.rs as buf.write(FrameType::X) + write_var/write. The harness reproduces that sequence from the real FrameType bytes (hook) and the real public Codec impls, so the encoder side is covered only as far as those building blocks; the decoder side has the full oracle.",
        },
        "distinct_note": "distinct = distinct encodings, 64-bit hashed",
    });
    acc.finish("frames", detail)
}

pub(crate) fn replay(input: &Value, acc: &mut Acc) -> String {
    let s = spec_from_json(input);
    let mut log = String::new();
    check_one(&s, acc, Some(&mut log));
    log
}
