//! Standalone runner: `vcodec quick|thorough [part ...]`, `vcodec replay '<json>'`

use std::time::{Duration, Instant};

fn main() {
    let args: Vec<String> = std::env::args().skip(1).collect();
    let mode = args.first().map(String::as_str).unwrap_or("quick");
    if mode == "replay" {
        let v: serde_json::Value = serde_json::from_str(args.get(1).map(String::as_str).unwrap_or("null")).expect("json");
        print!("{}", vcodec::replay(&v));
        return;
    }
    let thorough = mode == "thorough";
    let budget = std::env::var("VCODEC_BUDGET_SECS").ok().and_then(|s| s.parse().ok()).unwrap_or(if thorough { 900 } else { 40 });
    let only: Option<Vec<String>> = (args.len() > 1).then(|| args[1..].to_vec());
    let verbose = std::env::var("VCODEC_VERBOSE").is_ok();
    let start = Instant::now();
    let parts = vcodec::run_parts(thorough, start + Duration::from_secs(budget), only.as_deref());
    println!("{:<22} {:>14} {:>12} {:>10} {:>10} {:>8}", "part", "evaluations", "distinct", "exhaustive", "violations", "wall_s");
    let mut total_viol = 0;
    for (p, secs) in &parts {
        let nviol = p.detail["violations_total"].as_u64().unwrap_or(p.violations.len() as u64);
        total_viol += nviol;
        println!("{:<22} {:>14} {:>12} {:>10} {:>10} {:>8.2}", p.name, p.evaluations, p.distinct_nontrivial, p.exhaustive, nviol, secs);
    }
    println!("total wall {:.2}s, {} violations", start.elapsed().as_secs_f64(), total_viol);
    for (p, _) in &parts {
        if verbose {
            println!("\n== {} detail ==\n{}", p.name, serde_json::to_string_pretty(&p.detail).unwrap());
            for s in &p.samples {
                println!("sample: {s}");
            }
        } else if p.detail["violations_by_signature"].as_object().is_some_and(|m| !m.is_empty()) {
            println!("\n== {} violations by signature: {}", p.name, p.detail["violations_by_signature"]);
        }
        let mut seen = std::collections::BTreeMap::<&str, usize>::new();
        for v in &p.violations {
            let n = seen.entry(&v.signature).or_insert(0);
            *n += 1;
            if *n <= if verbose { 8 } else { 2 } {
                println!("  [{}] {}\n      replay: {}", v.signature, v.what, v.replay);
            }
        }
    }
}
