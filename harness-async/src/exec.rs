//! E4: deterministic single-threaded executor + virtual clock + virtual UDP network, exposed to
//! the real `quinn` crate through its `Runtime` / `AsyncUdpSocket` / `UdpSender` / `AsyncTimer`
//! traits. The harness owns every source of nondeterminism: which ready task is polled next,
//! when datagrams are delivered, when timers fire.

use std::{
    cell::Cell,
    collections::{BTreeMap, BTreeSet, VecDeque},
    fmt,
    future::Future,
    hash::{Hash, Hasher},
    io::{self, IoSliceMut},
    net::SocketAddr,
    panic::{catch_unwind, AssertUnwindSafe},
    pin::Pin,
    sync::{
        atomic::{AtomicU64, Ordering},
        Arc, Mutex, Weak,
    },
    task::{Context, Poll, Wake, Waker},
    time::{Duration, Instant},
};

use quinn::udp::{EcnCodepoint, RecvMeta, Transmit};
use quinn::{AsyncTimer, AsyncUdpSocket, Runtime, UdpSender};

pub type Fut = Pin<Box<dyn Future<Output = ()> + Send>>;

pub const NO_TASK: usize = usize::MAX;

thread_local! {
    /// Task currently being polled on this OS thread (one world per thread at a time)
    pub static CURRENT: Cell<usize> = const { Cell::new(NO_TASK) };
}

pub fn current_task() -> usize {
    CURRENT.with(|c| c.get())
}

#[derive(Debug, Clone, Copy, PartialEq, Eq)]
pub enum Kind {
    /// Spawned by quinn through `Runtime::spawn` from outside any task: an `EndpointDriver`
    EndpointDriver,
    /// Spawned by quinn through `Runtime::spawn` from inside a task: a `ConnectionDriver`
    ConnectionDriver,
    /// Scenario task
    App,
}

struct TaskWaker {
    id: usize,
    world: Weak<World>,
}

impl Wake for TaskWaker {
    fn wake(self: Arc<Self>) {
        self.wake_by_ref()
    }
    fn wake_by_ref(self: &Arc<Self>) {
        if let Some(w) = self.world.upgrade() {
            let mut s = w.sched.lock().unwrap();
            if s.done[self.id] {
                w.stale_wakes.fetch_add(1, Ordering::Relaxed);
            } else if s.ready.insert(self.id) {
                s.queue.push_back(self.id);
            }
        }
    }
}

struct Slot {
    name: String,
    kind: Kind,
    spawned_by: usize,
    fut: Option<Fut>,
    wk: Arc<TaskWaker>,
    waker: Waker,
    polls: u64,
}

#[derive(Default)]
struct Sched {
    ready: BTreeSet<usize>,
    done: Vec<bool>,
    /// the ready tasks in the order they were woken (run-queue order of a real executor)
    queue: std::collections::VecDeque<usize>,
    /// choose by run-queue order instead of by task id; a timer expiry fires every timer due at
    /// that instant (as a timer wheel does)
    fifo: bool,
}

#[derive(Default)]
struct Timers {
    next: u64,
    /// id -> (deadline, waker if armed)
    map: BTreeMap<u64, (Instant, Option<Waker>)>,
}

#[allow(dead_code)]
#[derive(Debug, Clone)]
pub struct Dgram {
    pub at: Duration,
    pub seq: u64,
    pub src: SocketAddr,
    pub dst: SocketAddr,
    pub ecn: Option<EcnCodepoint>,
    pub data: Vec<u8>,
}

#[derive(Default)]
struct Sock {
    inbox: VecDeque<Dgram>,
    waker: Option<Waker>,
}

struct Net {
    seq: u64,
    inflight: BTreeMap<(Duration, u64), Dgram>,
    socks: BTreeMap<SocketAddr, Sock>,
    senders: i64,
    latency: Duration,
    /// Index (in call order) of the one `poll_send` call that reports "not writable"
    block_at: Option<u64>,
    error_at: Option<u64>,
    errors_fired: u64,
    send_calls: u64,
    blocked: Vec<Waker>,
    blocked_fired: u64,
    sent: u64,
    delivered: u64,
    dropped_no_socket: u64,
    /// Receive-side coalescing: at most this many equal-sized datagrams (the last may be shorter)
    /// of one source are reported as ONE message with a stride, as a GRO-capable kernel does
    gro_segs: usize,
    /// Datagrams arriving at the same socket within `burst_window` of the first are handed over
    /// together with it (interrupt coalescing of a receive-offload capable NIC)
    burst: bool,
    burst_window: Duration,
    /// Shapes (segment lengths per message) of every receive batch of more than one datagram
    batch_shapes: Vec<Vec<Vec<usize>>>,
}

#[derive(Debug, Clone, PartialEq, Eq, Hash)]
pub enum Ev {
    /// Task polled; `done` = it returned Ready
    Poll { id: usize, done: bool },
    Deliver { seq: u64, dst: SocketAddr, len: usize, h: u64, at_us: u64 },
    NoSocket { seq: u64 },
    Timer { id: u64, at_us: u64 },
    Spawn { id: usize },
    /// The socket that refused a send became writable again
    Writable,
    /// Choice point marker (not hashed; only present when the trace is kept)
    Point { p: u64, nready: usize, alt: Option<u16> },
}

#[derive(Debug, Clone, PartialEq, Eq)]
pub enum Stop {
    Quiescent,
    Steps,
    Horizon,
    /// A listed deviation named an alternative that does not exist at its choice point: the
    /// execution is identical to one with fewer deviations and is abandoned
    Unavailable,
    Panic(String),
}

pub struct Limits {
    pub max_polls: u64,
    pub horizon: Duration,
}

pub struct World {
    pub base: Instant,
    clock: Mutex<Duration>,
    sched: Mutex<Sched>,
    tasks: Mutex<Vec<Slot>>,
    timers: Mutex<Timers>,
    net: Mutex<Net>,
    pub trace: Mutex<Vec<Ev>>,
    pub stale_wakes: AtomicU64,
    /// most timers that expired together at one instant (fifo mode)
    pub max_timer_batch: AtomicU64,
    pub keep_trace: bool,
    hasher: Mutex<std::collections::hash_map::DefaultHasher>,
    pub points: AtomicU64,
    /// Number of ready tasks at each choice point (only kept when keep_trace)
    pub ready_hist: Mutex<Vec<u8>>,
}

impl fmt::Debug for World {
    fn fmt(&self, f: &mut fmt::Formatter<'_>) -> fmt::Result {
        f.write_str("World")
    }
}

fn hash_bytes(b: &[u8]) -> u64 {
    let mut h = std::collections::hash_map::DefaultHasher::new();
    b.hash(&mut h);
    h.finish()
}

impl World {
    pub fn new(base: Instant, latency: Duration, keep_trace: bool) -> Arc<Self> {
        Arc::new(Self {
            base,
            clock: Mutex::new(Duration::ZERO),
            sched: Mutex::new(Sched::default()),
            tasks: Mutex::new(Vec::new()),
            timers: Mutex::new(Timers::default()),
            net: Mutex::new(Net {
                seq: 0,
                inflight: BTreeMap::new(),
                socks: BTreeMap::new(),
                senders: 0,
                latency,
                block_at: None,
                error_at: None,
                errors_fired: 0,
                send_calls: 0,
                blocked: Vec::new(),
                blocked_fired: 0,
                sent: 0,
                delivered: 0,
                dropped_no_socket: 0,
                gro_segs: 1,
                burst: false,
                burst_window: Duration::from_millis(4),
                batch_shapes: Vec::new(),
            }),
            trace: Mutex::new(Vec::new()),
            stale_wakes: AtomicU64::new(0),
            max_timer_batch: AtomicU64::new(0),
            keep_trace,
            hasher: Mutex::new(std::collections::hash_map::DefaultHasher::new()),
            points: AtomicU64::new(0),
            ready_hist: Mutex::new(Vec::new()),
        })
    }

    pub fn vnow(&self) -> Duration {
        *self.clock.lock().unwrap()
    }

    pub fn now(&self) -> Instant {
        self.base + self.vnow()
    }

    fn record(&self, ev: Ev) {
        ev.hash(&mut *self.hasher.lock().unwrap());
        if self.keep_trace {
            self.trace.lock().unwrap().push(ev);
        }
    }

    pub fn trace_hash(&self) -> u64 {
        self.hasher.lock().unwrap().clone().finish()
    }

    pub fn spawn(self: &Arc<Self>, name: &str, kind: Kind, fut: Fut) -> usize {
        let spawned_by = current_task();
        let id = {
            let mut t = self.tasks.lock().unwrap();
            let id = t.len();
            let wk = Arc::new(TaskWaker { id, world: Arc::downgrade(self) });
            let waker = Waker::from(wk.clone());
            let name = if name.is_empty() {
                match kind {
                    Kind::EndpointDriver => format!("EndpointDriver#{id}"),
                    Kind::ConnectionDriver => format!("ConnectionDriver#{id}"),
                    Kind::App => format!("app#{id}"),
                }
            } else {
                name.to_string()
            };
            t.push(Slot { name, kind, spawned_by, fut: Some(fut), wk, waker, polls: 0 });
            id
        };
        {
            let mut s = self.sched.lock().unwrap();
            s.done.push(false);
            if s.ready.insert(id) {
                s.queue.push_back(id);
            }
        }
        self.record(Ev::Spawn { id });
        id
    }

    pub fn spawn_app(self: &Arc<Self>, name: &str, fut: impl Future<Output = ()> + Send + 'static) -> usize {
        self.spawn(name, Kind::App, Box::pin(fut))
    }

    /// (deadline offset, is_datagram, key)
    fn next_world_event(&self) -> Option<(Duration, bool, u64)> {
        if !self.net.lock().unwrap().blocked.is_empty() {
            return Some((self.vnow(), false, u64::MAX));
        }
        let d = { self.net.lock().unwrap().inflight.keys().next().copied() };
        let t = {
            let tm = self.timers.lock().unwrap();
            tm.map
                .iter()
                .filter(|(_, (_, w))| w.is_some())
                .map(|(id, (dl, _))| (dl.saturating_duration_since(self.base), *id))
                .min()
        };
        match (d, t) {
            (None, None) => None,
            (Some((at, seq)), None) => Some((at, true, seq)),
            (None, Some((at, id))) => Some((at, false, id)),
            (Some((da, seq)), Some((ta, id))) => {
                if da <= ta {
                    Some((da, true, seq))
                } else {
                    Some((ta, false, id))
                }
            }
        }
    }

    fn world_step(&self, ev: (Duration, bool, u64)) {
        let (at, is_d, key) = ev;
        {
            let mut c = self.clock.lock().unwrap();
            if at > *c {
                *c = at;
            }
        }
        let at_us = self.vnow().as_micros() as u64;
        if !is_d && key == u64::MAX {
            let ws = { std::mem::take(&mut self.net.lock().unwrap().blocked) };
            self.record(Ev::Writable);
            for w in ws {
                w.wake();
            }
            return;
        }
        if is_d {
            let (d, wk) = {
                let mut n = self.net.lock().unwrap();
                let d = n.inflight.remove(&(at, key)).expect("in-flight datagram");
                match n.socks.get_mut(&d.dst) {
                    Some(s) => {
                        s.inbox.push_back(d.clone());
                        let wk = s.waker.take();
                        n.delivered += 1;
                        (Some(d), wk)
                    }
                    None => {
                        n.dropped_no_socket += 1;
                        (None, None)
                    }
                }
            };
            match &d {
                Some(d) => self.record(Ev::Deliver { seq: d.seq, dst: d.dst, len: d.data.len(), h: hash_bytes(&d.data), at_us }),
                None => self.record(Ev::NoSocket { seq: key }),
            }
            // burst mode: everything else arriving at this socket at the same instant comes with it
            if let Some(first) = &d {
                let more: Vec<Dgram> = {
                    let mut n = self.net.lock().unwrap();
                    if n.burst {
                        let until = at + n.burst_window;
                        let keys: Vec<(Duration, u64)> = n.inflight.range((at, 0)..=(until, u64::MAX)).filter(|(_, x)| x.dst == first.dst).map(|(k, _)| *k).collect();
                        let mut out = vec![];
                        for k in keys {
                            let x = n.inflight.remove(&k).unwrap();
                            if let Some(s) = n.socks.get_mut(&x.dst) {
                                s.inbox.push_back(x.clone());
                                n.delivered += 1;
                                out.push(x);
                            }
                        }
                        out
                    } else {
                        vec![]
                    }
                };
                for x in more {
                    self.record(Ev::Deliver { seq: x.seq, dst: x.dst, len: x.data.len(), h: hash_bytes(&x.data), at_us });
                }
            }
            if let Some(w) = wk {
                w.wake();
            }
        } else {
            let wk = { self.timers.lock().unwrap().map.get_mut(&key).and_then(|e| e.1.take()) };
            self.record(Ev::Timer { id: key, at_us });
            if let Some(w) = wk {
                w.wake();
            }
            if self.sched.lock().unwrap().fifo {
                // everything else that is due at this instant expires with it
                let now = self.base + self.vnow();
                let due: Vec<u64> = { self.timers.lock().unwrap().map.iter().filter(|(_, (dl, w))| w.is_some() && *dl <= now).map(|(id, _)| *id).collect() };
                let n = due.len() as u64 + 1;
                self.max_timer_batch.fetch_max(n, Ordering::Relaxed);
                for id in due {
                    let wk = { self.timers.lock().unwrap().map.get_mut(&id).and_then(|e| e.1.take()) };
                    self.record(Ev::Timer { id, at_us });
                    if let Some(w) = wk {
                        w.wake();
                    }
                }
            }
        }
    }

    /// Poll one task once. Err(msg) = the poll panicked.
    fn poll_task(&self, id: usize) -> Result<bool, String> {
        let (mut fut, waker) = {
            let mut t = self.tasks.lock().unwrap();
            let s = &mut t[id];
            s.polls += 1;
            (s.fut.take().expect("ready task has a future"), s.waker.clone())
        };
        {
            let mut s = self.sched.lock().unwrap();
            s.ready.remove(&id);
            s.queue.retain(|x| *x != id);
        }
        let prev = CURRENT.with(|c| c.replace(id));
        let mut cx = Context::from_waker(&waker);
        let r = catch_unwind(AssertUnwindSafe(|| fut.as_mut().poll(&mut cx)));
        CURRENT.with(|c| c.set(prev));
        match r {
            Ok(Poll::Ready(())) => {
                {
                    let mut s = self.sched.lock().unwrap();
                    s.done[id] = true;
                    s.ready.remove(&id);
                    s.queue.retain(|x| *x != id);
                }
                // handles captured by the task are released here, outside every harness lock
                let prev = CURRENT.with(|c| c.replace(id));
                let dr = catch_unwind(AssertUnwindSafe(|| drop(fut)));
                CURRENT.with(|c| c.set(prev));
                if let Err(e) = dr {
                    return Err(panic_msg(e));
                }
                self.record(Ev::Poll { id, done: true });
                Ok(true)
            }
            Ok(Poll::Pending) => {
                self.tasks.lock().unwrap()[id].fut = Some(fut);
                self.record(Ev::Poll { id, done: false });
                Ok(false)
            }
            Err(e) => {
                // quinn's mutexes may be poisoned now; running destructors would panic again
                std::mem::forget(fut);
                Err(panic_msg(e))
            }
        }
    }

    /// Run until quiescent / bound. `devs`: choice point -> alternative.
    /// Alternatives at a choice point (an executor step with >=1 ready task):
    ///   default: lowest-id ready task; 0: second-lowest ready task; 1: highest-id ready task
    ///   (needs >=3 ready); 2: starve all ready tasks for one step and perform the next world
    ///   event (datagram delivery or timer expiry) instead.
    pub fn run(&self, devs: &BTreeMap<u64, u16>, lim: &Limits) -> Stop {
        let mut polls = 0u64;
        loop {
            if polls >= lim.max_polls {
                return Stop::Steps;
            }
            let ready: Vec<usize> = {
                let s = self.sched.lock().unwrap();
                if s.fifo { s.queue.iter().copied().collect() } else { s.ready.iter().copied().collect() }
            };
            let wev = self.next_world_event();
            if !ready.is_empty() {
                let p = self.points.fetch_add(1, Ordering::Relaxed);
                if self.keep_trace {
                    self.ready_hist.lock().unwrap().push(ready.len().min(255) as u8);
                    self.trace.lock().unwrap().push(Ev::Point { p, nready: ready.len(), alt: devs.get(&p).copied() });
                }
                let mut pick = Some(ready[0]);
                if let Some(&a) = devs.get(&p) {
                    match a {
                        0 if ready.len() >= 2 => pick = Some(ready[1]),
                        1 if ready.len() >= 3 => pick = Some(*ready.last().unwrap()),
                        2 if wev.is_some() => pick = None,
                        _ => return Stop::Unavailable,
                    }
                }
                match pick {
                    Some(id) => {
                        polls += 1;
                        if let Err(m) = self.poll_task(id) {
                            return Stop::Panic(m);
                        }
                    }
                    None => {
                        let ev = wev.unwrap();
                        if ev.0 > lim.horizon {
                            return Stop::Horizon;
                        }
                        self.world_step(ev);
                    }
                }
            } else if let Some(ev) = wev {
                if ev.0 > lim.horizon {
                    return Stop::Horizon;
                }
                self.world_step(ev);
            } else {
                return Stop::Quiescent;
            }
        }
    }

    /// Drop every unfinished task's future (end of a run; breaks Arc cycles)
    pub fn shutdown(&self, leak: bool) {
        let futs: Vec<Fut> = {
            let mut t = self.tasks.lock().unwrap();
            t.iter_mut().filter_map(|s| s.fut.take()).collect()
        };
        {
            let mut s = self.sched.lock().unwrap();
            for d in s.done.iter_mut() {
                *d = true;
            }
            s.ready.clear();
            s.queue.clear();
        }
        if leak {
            std::mem::forget(futs);
        } else if catch_unwind(AssertUnwindSafe(|| drop(futs))).is_err() {
            // nothing to do: already reported elsewhere
        }
    }

    pub fn task_table(&self) -> Vec<TaskInfo> {
        let t = self.tasks.lock().unwrap();
        let s = self.sched.lock().unwrap();
        t.iter()
            .enumerate()
            .map(|(i, x)| TaskInfo {
                id: i,
                name: x.name.clone(),
                kind: x.kind,
                spawned_by: x.spawned_by,
                done: s.done[i],
                polls: x.polls,
                // executor's own references: the Arc in the slot and the cached Waker
                waker_refs: Arc::strong_count(&x.wk) as i64 - 2,
            })
            .collect()
    }

    /// Number of clones of task `id`'s waker held outside the executor (call from inside the
    /// task: the `Context` borrows the cached waker, it is not a clone)
    pub fn waker_refs(&self, id: usize) -> i64 {
        let t = self.tasks.lock().unwrap();
        Arc::strong_count(&t[id].wk) as i64 - 2
    }

    /// Run-queue (FIFO) scheduling and batched timer expiry, as real executors do
    pub fn set_fifo(&self, on: bool) {
        self.sched.lock().unwrap().fifo = on;
    }

    /// Receive offload emulation for the in-memory socket (see `Net::gro_segs`, `Net::burst`)
    pub fn set_gro(&self, segs: usize, burst: bool) {
        let mut n = self.net.lock().unwrap();
        n.gro_segs = segs.max(1);
        n.burst = burst;
    }

    /// Distinct shapes of receive batches that held more than one datagram
    pub fn batch_shapes(&self) -> Vec<Vec<Vec<usize>>> {
        let mut v = self.net.lock().unwrap().batch_shapes.clone();
        v.sort();
        v.dedup();
        v
    }

    pub fn block_send_at(&self, call: Option<u64>) {
        self.net.lock().unwrap().block_at = call;
    }

    /// The n-th `poll_send` call of the run fails with a hard I/O error
    pub fn fail_send_at(&self, call: Option<u64>) {
        self.net.lock().unwrap().error_at = call;
    }

    pub fn send_errors_fired(&self) -> u64 {
        self.net.lock().unwrap().errors_fired
    }

    pub fn send_calls(&self) -> (u64, u64) {
        let n = self.net.lock().unwrap();
        (n.send_calls, n.blocked_fired)
    }

    pub fn net_stats(&self) -> NetStats {
        let n = self.net.lock().unwrap();
        let t = self.timers.lock().unwrap();
        NetStats {
            sockets: n.socks.len(),
            senders: n.senders,
            inflight: n.inflight.len(),
            timers: t.map.len(),
            sent: n.sent,
            delivered: n.delivered,
            dropped_no_socket: n.dropped_no_socket,
        }
    }

    pub fn socket(self: &Arc<Self>, addr: SocketAddr) -> Box<dyn AsyncUdpSocket> {
        self.net.lock().unwrap().socks.insert(addr, Sock::default());
        Box::new(VSocket { addr, world: self.clone() })
    }

    pub fn runtime(self: &Arc<Self>) -> Arc<dyn Runtime> {
        Arc::new(VRuntime { world: self.clone() })
    }
}

#[derive(Debug, Clone)]
pub struct TaskInfo {
    pub id: usize,
    pub name: String,
    pub kind: Kind,
    pub spawned_by: usize,
    pub done: bool,
    pub polls: u64,
    pub waker_refs: i64,
}

#[allow(dead_code)]
#[derive(Debug, Clone)]
pub struct NetStats {
    pub sockets: usize,
    pub senders: i64,
    pub inflight: usize,
    pub timers: usize,
    pub sent: u64,
    pub delivered: u64,
    pub dropped_no_socket: u64,
}

pub fn panic_msg(e: Box<dyn std::any::Any + Send>) -> String {
    if let Some(s) = e.downcast_ref::<String>() {
        s.clone()
    } else if let Some(s) = e.downcast_ref::<&str>() {
        s.to_string()
    } else {
        "panic".to_string()
    }
}

// ---------------------------------------------------------------------------------------------
// quinn::Runtime

#[derive(Debug)]
pub struct VRuntime {
    world: Arc<World>,
}

impl Runtime for VRuntime {
    fn new_timer(&self, i: Instant) -> Pin<Box<dyn AsyncTimer>> {
        let id = {
            let mut t = self.world.timers.lock().unwrap();
            let id = t.next;
            t.next += 1;
            t.map.insert(id, (i, None));
            id
        };
        Box::pin(VTimer { id, world: self.world.clone() })
    }

    fn spawn(&self, future: Fut) {
        let kind = if current_task() == NO_TASK { Kind::EndpointDriver } else { Kind::ConnectionDriver };
        self.world.spawn("", kind, future);
    }

    fn wrap_udp_socket(&self, _t: std::net::UdpSocket) -> io::Result<Box<dyn AsyncUdpSocket>> {
        Err(io::Error::other("virtual runtime: use new_with_abstract_socket"))
    }

    fn now(&self) -> Instant {
        self.world.now()
    }
}

#[derive(Debug)]
struct VTimer {
    id: u64,
    world: Arc<World>,
}

impl AsyncTimer for VTimer {
    fn reset(self: Pin<&mut Self>, i: Instant) {
        let mut t = self.world.timers.lock().unwrap();
        if let Some(e) = t.map.get_mut(&self.id) {
            e.0 = i;
        }
    }

    fn poll(self: Pin<&mut Self>, cx: &mut Context<'_>) -> Poll<()> {
        let now = self.world.now();
        let mut t = self.world.timers.lock().unwrap();
        let e = t.map.get_mut(&self.id).expect("live timer");
        if now >= e.0 {
            e.1 = None;
            Poll::Ready(())
        } else {
            e.1 = Some(cx.waker().clone());
            Poll::Pending
        }
    }
}

impl Drop for VTimer {
    fn drop(&mut self) {
        let e = { self.world.timers.lock().unwrap().map.remove(&self.id) };
        drop(e);
    }
}

// ---------------------------------------------------------------------------------------------
// quinn::AsyncUdpSocket / UdpSender

struct VSocket {
    addr: SocketAddr,
    world: Arc<World>,
}

impl fmt::Debug for VSocket {
    fn fmt(&self, f: &mut fmt::Formatter<'_>) -> fmt::Result {
        write!(f, "VSocket({})", self.addr)
    }
}

impl AsyncUdpSocket for VSocket {
    fn create_sender(&self) -> Pin<Box<dyn UdpSender>> {
        self.world.net.lock().unwrap().senders += 1;
        Box::pin(VSender { addr: self.addr, world: self.world.clone() })
    }

    fn poll_recv(
        &mut self,
        cx: &mut Context<'_>,
        bufs: &mut [IoSliceMut<'_>],
        meta: &mut [RecvMeta],
    ) -> Poll<io::Result<usize>> {
        let mut n = self.world.net.lock().unwrap();
        let Some(s) = n.socks.get_mut(&self.addr) else {
            return Poll::Ready(Err(io::Error::other("socket closed")));
        };
        if s.inbox.is_empty() {
            s.waker = Some(cx.waker().clone());
            return Poll::Pending;
        }
        let gro = n.gro_segs;
        let s = n.socks.get_mut(&self.addr).unwrap();
        let mut k = 0;
        let mut shape: Vec<Vec<usize>> = vec![];
        while k < bufs.len().min(meta.len()) {
            let Some(d) = s.inbox.pop_front() else { break };
            let stride = d.data.len().min(bufs[k].len());
            bufs[k][..stride].copy_from_slice(&d.data[..stride]);
            let mut total = stride;
            let mut segs = vec![stride];
            // coalesce what a GRO-capable kernel would: same source and ECN mark, equal sizes, a
            // shorter datagram only as the last one
            while segs.len() < gro && stride > 0 {
                let Some(nx) = s.inbox.front() else { break };
                let l = nx.data.len();
                if nx.src != d.src || nx.ecn != d.ecn || l > stride || l == 0 || total + l > bufs[k].len() {
                    break;
                }
                let nx = s.inbox.pop_front().unwrap();
                bufs[k][total..total + l].copy_from_slice(&nx.data);
                total += l;
                segs.push(l);
                if l < stride {
                    break;
                }
            }
            let mut m = RecvMeta::default();
            m.addr = d.src;
            m.len = total;
            m.stride = stride;
            m.ecn = d.ecn;
            m.dst_ip = None;
            meta[k] = m;
            shape.push(segs);
            k += 1;
        }
        if shape.iter().map(|x| x.len()).sum::<usize>() > 1 {
            n.batch_shapes.push(shape);
        }
        Poll::Ready(Ok(k))
    }

    fn local_addr(&self) -> io::Result<SocketAddr> {
        Ok(self.addr)
    }

    fn max_receive_segments(&self) -> usize {
        self.world.net.lock().unwrap().gro_segs
    }

    fn may_fragment(&self) -> bool {
        false
    }
}

impl Drop for VSocket {
    fn drop(&mut self) {
        let s = { self.world.net.lock().unwrap().socks.remove(&self.addr) };
        drop(s);
    }
}

struct VSender {
    addr: SocketAddr,
    world: Arc<World>,
}

impl fmt::Debug for VSender {
    fn fmt(&self, f: &mut fmt::Formatter<'_>) -> fmt::Result {
        write!(f, "VSender({})", self.addr)
    }
}

impl UdpSender for VSender {
    fn poll_send(self: Pin<&mut Self>, t: &Transmit<'_>, cx: &mut Context<'_>) -> Poll<io::Result<()>> {
        let now = self.world.vnow();
        let mut n = self.world.net.lock().unwrap();
        let call = n.send_calls;
        n.send_calls += 1;
        if n.block_at == Some(call) {
            n.blocked.push(cx.waker().clone());
            n.blocked_fired += 1;
            return Poll::Pending;
        }
        if n.error_at == Some(call) {
            // a hard I/O error from the socket (the connection driver that sees it gives up)
            n.errors_fired += 1;
            return Poll::Ready(Err(io::Error::new(io::ErrorKind::PermissionDenied, "injected send error")));
        }
        let seg = t.segment_size.unwrap_or(t.contents.len()).max(1);
        for c in t.contents.chunks(seg) {
            let seq = n.seq;
            n.seq += 1;
            n.sent += 1;
            let at = now + n.latency;
            n.inflight.insert(
                (at, seq),
                Dgram { at, seq, src: self.addr, dst: t.destination, ecn: t.ecn, data: c.to_vec() },
            );
        }
        Poll::Ready(Ok(()))
    }

    fn max_transmit_segments(&self) -> usize {
        10
    }
}

impl Drop for VSender {
    fn drop(&mut self) {
        self.world.net.lock().unwrap().senders -= 1;
    }
}
