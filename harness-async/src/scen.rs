//! Scenarios (ordinary async code against the real quinn API), cancellation wrapper, oracles.

use std::{
    collections::BTreeMap,
    future::{Future, IntoFuture},
    net::SocketAddr,
    pin::Pin,
    sync::{Arc, Mutex},
    task::{Context, Poll, Waker},
    time::{Duration, Instant},
};

use bytes::Bytes;
use quinn::{ClientConfig, ConnectionError, Endpoint, Incoming, VarInt};
use serde_json::{json, Value};
use vx::{
    app::{dgram_payload, pattern, pattern_vec, sid},
    explore::Devs,
    mtls,
    sim::{self, PairCfg, SimTime, TCfg},
};

use crate::exec::{current_task, Kind, Limits, Stop, World, NO_TASK};

// ---------------------------------------------------------------------------------------------
// Variants

#[derive(Debug, Clone, Copy, PartialEq, Eq, PartialOrd, Ord)]
pub enum Scen {
    /// uni-stream transfer, default windows
    S1,
    /// two sequential uni streams, server stream window 1024 and max_concurrent_uni_streams 1:
    /// `write` and the second `open_uni` really block
    S1w,
    /// bidi echo + one datagram each way
    S2,
    /// waiters: closed / stopped / accept_bi / read_datagram / read / wait_idle pending until close
    S3,
    /// 0-RTT with a ticket, server accepts early data: early writes on a uni stream, more after
    S4a,
    /// 0-RTT with a ticket, server rejects: stale early handles must be inert, the retry on a
    /// fresh stream (same id) must be delivered exactly
    S4r,
    /// three client tasks share a 1000-byte datagram send buffer and send 600-byte datagrams with
    /// `send_datagram_wait`: each wakeup may find the buffer taken again by the other task
    S5,
    S6,
    S7,
    /// 170 connections between one pair of endpoints; the client endpoint is closed while all of them
    /// are open, so that more endpoint events than the driver's per-poll bound are queued at once
    S8,
    /// the same with 330 connections (more than twice the bound)
    S8x,
    /// a small transfer whose handlers accept any connection error: used with an injected hard socket
    /// error (the connection driver that meets it ends at once, before the connection has drained);
    /// a watchdog on the server closes whatever is left after two seconds
    S9,
    /// the server sends three datagrams and closes a moment later; the client first waits for the
    /// close and only then reads: what arrived before the close is still handed over
    S10,
}

impl Scen {
    pub fn name(self) -> &'static str {
        match self {
            Scen::S1 => "S1",
            Scen::S1w => "S1w",
            Scen::S2 => "S2",
            Scen::S3 => "S3",
            Scen::S4a => "S4a",
            Scen::S4r => "S4r",
            Scen::S5 => "S5",
            Scen::S6 => "S6",
            Scen::S7 => "S7",
            Scen::S8 => "S8",
            Scen::S8x => "S8x",
            Scen::S9 => "S9",
            Scen::S10 => "S10",
        }
    }
    pub fn parse(s: &str) -> Option<Self> {
        [Scen::S1, Scen::S1w, Scen::S2, Scen::S3, Scen::S4a, Scen::S4r, Scen::S5, Scen::S6, Scen::S7, Scen::S8, Scen::S8x, Scen::S9, Scen::S10].into_iter().find(|x| x.name() == s)
    }
}

/// Handle-drop variants (S1 / S1w only)
#[derive(Debug, Clone, Copy, PartialEq, Eq, PartialOrd, Ord)]
pub enum DropV {
    None,
    /// Client drops the SendStream of stream 0 (no finish) after `i` of its writes
    SendAfterWrites(u32),
    /// Server drops the RecvStream of stream 0 after `j` completed reads; client never finishes
    RecvAfterReads(u32),
    /// Server: at the first read >= j that is pending, drop the read future, then the RecvStream
    RecvAfterCancelledRead(u32),
    /// Server drops RecvStream and its last Connection handle after `j` completed reads
    SrvConnAfterReads(u32),
    /// Client drops its last Connection handle where it would have called close()
    CliConnInsteadOfClose,
    /// Client drops its only Endpoint handle right after the connection is established
    EpEarly,
    /// Server drops the first Incoming without accepting
    IncomingDropped,
    /// the server closes its endpoint while it still holds an `Incoming`, and accepts that afterwards
    IncomingAfterClose,
    /// Client (S1w): at the first pending write, drop the write future, then the SendStream
    SendAfterCancelledWrite,
}

impl DropV {
    pub fn to_json(self) -> Value {
        match self {
            DropV::None => json!("none"),
            DropV::SendAfterWrites(i) => json!({"send_after_writes": i}),
            DropV::RecvAfterReads(i) => json!({"recv_after_reads": i}),
            DropV::RecvAfterCancelledRead(i) => json!({"recv_after_cancelled_read": i}),
            DropV::SrvConnAfterReads(i) => json!({"srv_conn_after_reads": i}),
            DropV::CliConnInsteadOfClose => json!("cli_conn_instead_of_close"),
            DropV::EpEarly => json!("ep_early"),
            DropV::IncomingDropped => json!("incoming_dropped"),
            DropV::IncomingAfterClose => json!("incoming_after_close"),
            DropV::SendAfterCancelledWrite => json!("send_after_cancelled_write"),
        }
    }
    pub fn from_json(v: &Value) -> Option<Self> {
        if let Some(s) = v.as_str() {
            return match s {
                "none" => Some(DropV::None),
                "cli_conn_instead_of_close" => Some(DropV::CliConnInsteadOfClose),
                "ep_early" => Some(DropV::EpEarly),
                "incoming_dropped" => Some(DropV::IncomingDropped),
                "incoming_after_close" => Some(DropV::IncomingAfterClose),
                "send_after_cancelled_write" => Some(DropV::SendAfterCancelledWrite),
                _ => None,
            };
        }
        let o = v.as_object()?;
        let (k, n) = o.iter().next()?;
        let n = n.as_u64()? as u32;
        match k.as_str() {
            "send_after_writes" => Some(DropV::SendAfterWrites(n)),
            "recv_after_reads" => Some(DropV::RecvAfterReads(n)),
            "recv_after_cancelled_read" => Some(DropV::RecvAfterCancelledRead(n)),
            "srv_conn_after_reads" => Some(DropV::SrvConnAfterReads(n)),
            _ => None,
        }
    }
}

#[derive(Debug, Clone, Copy, PartialEq, Eq)]
pub enum Mode {
    /// Drop the future immediately after its n-th Pending poll (same task poll)
    Now,
    /// Drop the future, without polling it again, when the task is next polled after the n-th
    /// Pending poll (i.e. after something woke the task: the select!-loser pattern)
    OnWake,
}

/// Cancel the future at await site `site`, occurrence `occ` (None: every occurrence), after `n`
/// polls, then retry with a fresh future.
#[derive(Debug, Clone, PartialEq, Eq)]
pub struct CancelSpec {
    pub site: String,
    pub occ: Option<u32>,
    pub n: u32,
    pub mode: Mode,
}

impl CancelSpec {
    pub fn to_json(&self) -> Value {
        json!({"site": self.site, "occ": self.occ, "n": self.n, "mode": match self.mode { Mode::Now => "now", Mode::OnWake => "on_wake" }})
    }
    pub fn from_json(v: &Value) -> Option<Self> {
        if v.is_null() {
            return None;
        }
        Some(Self {
            site: v["site"].as_str()?.to_string(),
            occ: v["occ"].as_u64().map(|x| x as u32),
            n: v["n"].as_u64()? as u32,
            mode: if v["mode"] == "on_wake" { Mode::OnWake } else { Mode::Now },
        })
    }
}

#[derive(Debug, Clone)]
pub struct Spec {
    pub scen: Scen,
    pub drop: DropV,
    pub cancel: Option<CancelSpec>,
    /// The n-th `UdpSender::poll_send` call of the run (any socket) returns Pending once
    pub send_block: Option<u64>,
    pub devs: Devs,
    /// receive-offload emulation of the in-memory sockets: (max segments per message, burst delivery)
    pub gro: Option<(usize, bool)>,
    /// The n-th `UdpSender::poll_send` call of the run fails with a hard I/O error
    pub send_error: Option<u64>,
}

impl Spec {
    pub fn new(scen: Scen) -> Self {
        Self { scen, drop: DropV::None, cancel: None, send_block: None, devs: vec![], gro: None, send_error: None }
    }
    pub fn to_json(&self) -> Value {
        json!({
            "check": "c18",
            "scenario": self.scen.name(),
            "drop": self.drop.to_json(),
            "cancel": self.cancel.as_ref().map(|c| c.to_json()),
            "send_block": self.send_block,
            "devs": self.devs,
            "gro": self.gro.map(|(s, b)| json!([s, b])),
            "send_error": self.send_error,
        })
    }
    pub fn from_json(v: &Value) -> Option<Self> {
        Some(Self {
            scen: Scen::parse(v["scenario"].as_str()?)?,
            drop: DropV::from_json(&v["drop"]).unwrap_or(DropV::None),
            cancel: CancelSpec::from_json(&v["cancel"]),
            send_block: v["send_block"].as_u64(),
            devs: v["devs"]
                .as_array()
                .map(|a| a.iter().map(|x| (x[0].as_u64().unwrap_or(0), x[1].as_u64().unwrap_or(0) as u16)).collect())
                .unwrap_or_default(),
            gro: v["gro"].as_array().map(|a| (a[0].as_u64().unwrap_or(1) as usize, a[1].as_bool().unwrap_or(false))),
            send_error: v["send_error"].as_u64(),
        })
    }
    pub fn label(&self) -> String {
        let mut s = self.scen.name().to_string();
        if self.drop != DropV::None {
            s.push_str(&format!("/{:?}", self.drop));
        }
        if let Some(b) = self.send_block {
            s.push_str(&format!("/send-not-writable@{b}"));
        }
        if let Some((g, b)) = self.gro {
            s.push_str(&format!("/gro{g}{}", if b { "+burst" } else { "" }));
        }
        if let Some(c) = &self.cancel {
            s.push_str(&format!("/cancel[{}#{} n={} {:?}]", c.site, c.occ.map_or("*".into(), |x| x.to_string()), c.n, c.mode));
        }
        s
    }
}

/// Await sites whose futures quinn documents as cancel-safe
pub const CANCEL_SAFE_SITES: &[&str] = &[
    "srv.read",
    "srv.read_chunk",
    "cli.write",
    "srv.write",
    "srv.accept_uni",
    "srv.accept_bi",
    "cli.open_uni",
    "cli.open_bi",
    "cli.read_datagram",
    "srv.read_datagram",
    "w.accept_bi",
    "w.read_datagram",
    "w.read",
];

// ---------------------------------------------------------------------------------------------
// Observation record shared by all tasks of one run

#[derive(Default)]
pub struct ObsInner {
    pub stage: BTreeMap<usize, String>,
    pub fails: Vec<(String, String)>,
    pub occ: BTreeMap<String, u32>,
    /// (site, occurrence) -> number of Pending polls of the inner future(s) before completion
    pub sites: BTreeMap<(String, u32), u32>,
    pub cancels: u32,
    pub recv: BTreeMap<String, Vec<u8>>,
    pub eof: BTreeMap<String, bool>,
    pub sent: BTreeMap<String, usize>,
    pub sid: BTreeMap<String, u64>,
    pub notes: BTreeMap<String, i64>,
}

pub struct Obs {
    pub world: Arc<World>,
    pub scen: Scen,
    pub drop: DropV,
    pub cancel: Option<CancelSpec>,
    pub m: Mutex<ObsInner>,
}

impl Obs {
    pub fn fail(&self, sig: &str, what: String) {
        self.m.lock().unwrap().fails.push((sig.to_string(), what));
    }
    pub fn note(&self, k: &str, d: i64) {
        *self.m.lock().unwrap().notes.entry(k.to_string()).or_insert(0) += d;
    }
    pub fn stage(&self, s: &str) {
        self.m.lock().unwrap().stage.insert(current_task(), s.to_string());
    }
    /// Enter an await site: returns (occurrence, cancellation plan, waker refs before)
    pub fn enter(&self, site: &str) -> (u32, Option<(u32, Mode)>, i64) {
        let t = current_task();
        let refs = if t == NO_TASK { 0 } else { self.world.waker_refs(t) };
        let mut m = self.m.lock().unwrap();
        let e = m.occ.entry(site.to_string()).or_insert(0);
        let occ = *e;
        *e += 1;
        m.stage.insert(t, format!("{site}#{occ}"));
        let plan = match &self.cancel {
            Some(c) if c.site == site && c.occ.map_or(true, |o| o == occ) => Some((c.n, c.mode)),
            _ => None,
        };
        (occ, plan, refs)
    }
    pub fn leave(&self, site: &str, occ: u32, polls: u32) {
        let mut m = self.m.lock().unwrap();
        m.sites.insert((site.to_string(), occ), polls);
        m.stage.insert(current_task(), format!("after {site}#{occ}"));
    }
    /// A future was dropped while pending; `before` = waker clones held outside the executor
    /// when the site was entered
    pub fn cancelled(&self, site: &str, before: i64) {
        let now = self.world.waker_refs(current_task());
        let mut m = self.m.lock().unwrap();
        m.cancels += 1;
        if now > before {
            *m.notes.entry(format!("waker_retained_after_future_drop:{site}")).or_insert(0) += 1;
        }
    }
    pub fn got(&self, key: &str, sid: u64, data: &[u8]) -> bool {
        let mut m = self.m.lock().unwrap();
        m.sid.insert(key.to_string(), sid);
        let v = m.recv.entry(key.to_string()).or_default();
        let off = v.len() as u64;
        let ok = data.iter().enumerate().all(|(i, b)| *b == pattern(sid, off + i as u64));
        v.extend_from_slice(data);
        ok
    }
    pub fn set_eof(&self, key: &str) {
        self.m.lock().unwrap().eof.insert(key.to_string(), true);
    }
    pub fn set_sent(&self, key: &str, sid: u64, n: usize) {
        let mut m = self.m.lock().unwrap();
        m.sid.insert(key.to_string(), sid);
        m.sent.insert(key.to_string(), n);
    }
}

/// Waker handed to ONE future instance. It forwards to the task's waker while that instance is
/// alive; once the instance has been dropped (completed or cancelled) it is inert, exactly like
/// the waker of a `select!` branch or of another task that no longer waits. Code that keeps the
/// waker of a dropped future instead of the one from the latest poll therefore loses the wakeup.
pub struct InstanceWaker {
    inner: std::task::Waker,
    alive: std::sync::atomic::AtomicBool,
}

pub static STALE_INSTANCE_WAKES: std::sync::atomic::AtomicU64 = std::sync::atomic::AtomicU64::new(0);

impl std::task::Wake for InstanceWaker {
    fn wake(self: std::sync::Arc<Self>) {
        self.wake_by_ref()
    }
    fn wake_by_ref(self: &std::sync::Arc<Self>) {
        if self.alive.load(std::sync::atomic::Ordering::SeqCst) {
            self.inner.wake_by_ref();
        } else {
            STALE_INSTANCE_WAKES.fetch_add(1, std::sync::atomic::Ordering::Relaxed);
        }
    }
}

/// Polls the inner future; implements the cancellation plan. Output None = "cancel now".
pub struct PollN<'a, F> {
    pub f: Pin<&'a mut F>,
    pub plan: Option<(u32, Mode)>,
    pub done: u32,
    pub polls: &'a mut u32,
    pub iw: Option<std::sync::Arc<InstanceWaker>>,
}

impl<F> Drop for PollN<'_, F> {
    fn drop(&mut self) {
        if let Some(w) = &self.iw {
            w.alive.store(false, std::sync::atomic::Ordering::SeqCst);
        }
    }
}

impl<F: Future> Future for PollN<'_, F> {
    type Output = Option<F::Output>;
    fn poll(self: Pin<&mut Self>, cx: &mut Context<'_>) -> Poll<Self::Output> {
        let this = self.get_mut();
        if let Some((n, mode)) = this.plan {
            if this.done >= n && (mode == Mode::OnWake || n == 0) {
                return Poll::Ready(None);
            }
        }
        let iw = this
            .iw
            .get_or_insert_with(|| std::sync::Arc::new(InstanceWaker { inner: cx.waker().clone(), alive: std::sync::atomic::AtomicBool::new(true) }))
            .clone();
        let w = std::task::Waker::from(iw);
        let mut icx = Context::from_waker(&w);
        match this.f.as_mut().poll(&mut icx) {
            Poll::Ready(v) => Poll::Ready(Some(v)),
            Poll::Pending => {
                this.done += 1;
                *this.polls += 1;
                if let Some((n, Mode::Now)) = this.plan {
                    if this.done >= n {
                        return Poll::Ready(None);
                    }
                }
                Poll::Pending
            }
        }
    }
}

/// Cancellable await: `$mk` is re-evaluated to make a fresh future after a cancellation.
macro_rules! op {
    ($o:expr, $site:expr, $mk:expr) => {{
        let (__occ, mut __plan, __refs) = $o.enter($site);
        let mut __polls = 0u32;
        loop {
            let __r = {
                let __f = $mk;
                let mut __f = std::pin::pin!(__f);
                $crate::scen::PollN { f: __f.as_mut(), plan: __plan.take(), done: 0, polls: &mut __polls, iw: None }.await
            };
            match __r {
                Some(v) => {
                    $o.leave($site, __occ, __polls);
                    break v;
                }
                None => {
                    $o.cancelled($site, __refs);
                    continue;
                }
            }
        }
    }};
}

/// Plain await with stage tracking (futures taken by value)
macro_rules! aw {
    ($o:expr, $site:expr, $f:expr) => {{
        let (__occ, _, _) = $o.enter($site);
        let mut __polls = 0u32;
        let __f = $f;
        let mut __f = std::pin::pin!(__f);
        let v = $crate::scen::PollN { f: __f.as_mut(), plan: None, done: 0, polls: &mut __polls, iw: None }.await.unwrap();
        $o.leave($site, __occ, __polls);
        v
    }};
}

/// Counting latch for joining scenario tasks
#[derive(Default)]
pub struct Latch {
    m: Mutex<(u32, Vec<Waker>)>,
}

impl Latch {
    pub fn arrive(&self) {
        let ws = {
            let mut m = self.m.lock().unwrap();
            m.0 += 1;
            std::mem::take(&mut m.1)
        };
        for w in ws {
            w.wake();
        }
    }
    pub fn wait(&self, n: u32) -> LatchWait<'_> {
        LatchWait { l: self, n }
    }
}

pub struct LatchWait<'a> {
    l: &'a Latch,
    n: u32,
}

impl Future for LatchWait<'_> {
    type Output = ();
    fn poll(self: Pin<&mut Self>, cx: &mut Context<'_>) -> Poll<()> {
        let mut m = self.l.m.lock().unwrap();
        if m.0 >= self.n {
            Poll::Ready(())
        } else {
            m.1.clear();
            m.1.push(cx.waker().clone());
            Poll::Pending
        }
    }
}

fn cerr(e: &ConnectionError) -> String {
    match e {
        ConnectionError::ApplicationClosed(a) => {
            format!("app({},{:?})", a.error_code.into_inner(), String::from_utf8_lossy(&a.reason))
        }
        ConnectionError::LocallyClosed => "local".into(),
        ConnectionError::ConnectionClosed(c) => format!("conn({:?})", c.error_code),
        ConnectionError::TimedOut => "timeout".into(),
        ConnectionError::Reset => "reset".into(),
        ConnectionError::TransportError(t) => format!("transport({:?})", t.code),
        ConnectionError::VersionMismatch => "version".into(),
        ConnectionError::CidsExhausted => "cids".into(),
    }
}

// ---------------------------------------------------------------------------------------------
// S1 / S1w

fn stream_plan(scen: Scen) -> Vec<Vec<usize>> {
    match scen {
        Scen::S1 => vec![vec![2000, 2000, 1000]],
        _ => vec![vec![1500, 1500], vec![2000]],
    }
}

/// What the connection error seen by the side that did not close must be
fn expected_peer_close(o: &Obs, side_is_server: bool) -> &'static str {
    match (o.drop, side_is_server) {
        (DropV::CliConnInsteadOfClose, true) => "app(0,\"\")",
        (DropV::SrvConnAfterReads(_), false) => "app(0,\"\")",
        (_, true) => "app(0,\"done\")",
        (_, false) => "local",
    }
}

async fn s1_client(o: Arc<Obs>, ep: Endpoint, cc: ClientConfig, saddr: SocketAddr) {
    let mut ep = Some(ep);
    let connecting = match ep.as_ref().unwrap().connect_with(cc, saddr, "localhost") {
        Ok(c) => c,
        Err(e) => return o.fail("O1:connect-call", format!("connect_with: {e:?}")),
    };
    let conn = aw!(o, "cli.connect", connecting);
    if o.drop == DropV::IncomingDropped || o.drop == DropV::IncomingAfterClose {
        match conn {
            Err(e) => o.note(&format!("refused_connect_result:{}", cerr(&e)), 1),
            Ok(c) => {
                if o.drop == DropV::IncomingDropped {
                    o.fail("O6:incoming-drop", "server dropped the Incoming but connect succeeded".into());
                } else {
                    // the handshake may complete on the wire before the server's close arrives; the
                    // connection must then end with the endpoint's close
                    let e = aw!(o, "cli.closed", c.closed());
                    o.note(&format!("refused_connect_result:closed:{}", cerr(&e)), 1);
                }
            }
        }
        let e = ep.take().unwrap();
        op!(o, "cli.wait_idle", e.wait_idle());
        return;
    }
    let conn = match conn {
        Ok(c) => c,
        Err(e) => return o.fail("O1:connect", format!("connect failed: {}", cerr(&e))),
    };
    if o.drop == DropV::EpEarly {
        ep.take();
    }
    let server_drops_conn = matches!(o.drop, DropV::SrvConnAfterReads(_));
    let mut conn_lost = false;
    'streams: for (si, writes) in stream_plan(o.scen).iter().enumerate() {
        let mut s = match op!(o, "cli.open_uni", conn.open_uni()) {
            Ok(s) => Some(s),
            Err(e) if server_drops_conn && cerr(&e) == "app(0,\"\")" => {
                conn_lost = true;
                break 'streams;
            }
            Err(e) => return o.fail("O1:open_uni", format!("open_uni: {}", cerr(&e))),
        };
        let id = sid(s.as_ref().unwrap().id());
        let key = format!("uni{si}");
        let total: usize = writes.iter().sum();
        let data = pattern_vec(id, 0, total);
        let mut off = 0usize;
        o.set_sent(&key, id, 0);
        let mut stopped_by_peer = false;
        let mut dropped = None;
        'writes: for (wi, len) in writes.iter().enumerate() {
            if si == 0 && o.drop == DropV::SendAfterWrites(wi as u32) {
                let st = s.as_ref().unwrap().stopped();
                drop(s.take());
                dropped = Some(st);
                break 'writes;
            }
            let end = off + len;
            while off < end {
                if si == 0 && o.drop == DropV::SendAfterCancelledWrite {
                    // poll a write once; if it is pending drop the future, then the stream
                    let before = o.world.waker_refs(current_task());
                    let mut polls = 0u32;
                    let r = {
                        let f = s.as_mut().unwrap().write(&data[off..end]);
                        let mut f = std::pin::pin!(f);
                        PollN { f: f.as_mut(), plan: Some((1, Mode::Now)), done: 0, polls: &mut polls, iw: None }.await
                    };
                    match r {
                        Some(Ok(n)) => {
                            off += n;
                            o.set_sent(&key, id, off);
                            continue;
                        }
                        Some(Err(e)) => return o.fail("O2:write-error", format!("write: {e:?}")),
                        None => {
                            let st = s.as_ref().unwrap().stopped();
                            drop(s.take());
                            let after = o.world.waker_refs(current_task());
                            if after > before {
                                o.fail(
                                    "O5:stale-registration:SendStream",
                                    format!("waker clones held after dropping a pending write and its SendStream: before={before} after={after}"),
                                );
                            }
                            o.note("send_dropped_after_cancelled_write", 1);
                            dropped = Some(st);
                            break 'writes;
                        }
                    }
                }
                match op!(o, "cli.write", s.as_mut().unwrap().write(&data[off..end])) {
                    Ok(n) if n > 0 && n <= end - off => {
                        off += n;
                        o.set_sent(&key, id, off);
                    }
                    Ok(n) => return o.fail("O2:write-len", format!("write returned {n} for a buffer of {}", end - off)),
                    Err(quinn::WriteError::Stopped(c))
                        if si == 0 && c.into_inner() == 0 && matches!(o.drop, DropV::RecvAfterReads(_) | DropV::RecvAfterCancelledRead(_)) =>
                    {
                        stopped_by_peer = true;
                        break 'writes;
                    }
                    Err(quinn::WriteError::ConnectionLost(e)) if server_drops_conn && cerr(&e) == "app(0,\"\")" => {
                        conn_lost = true;
                        break 'streams;
                    }
                    Err(e) => return o.fail("O2:write-error", format!("write on {key} at {off}: {e:?}")),
                }
            }
        }
        if let Some(st) = dropped {
            // documented: dropped without reset => implicitly finished; data written so far is
            // delivered. stopped() then yields None once everything is acknowledged.
            match aw!(o, "cli.stopped", st) {
                Ok(None) => {}
                r => return o.fail("O6:send-drop", format!("stopped() after dropping SendStream: {r:?}, expected Ok(None)")),
            }
            continue;
        }
        let mut s = s.take().unwrap();
        let peer_drops_recv = si == 0 && matches!(o.drop, DropV::RecvAfterReads(_) | DropV::RecvAfterCancelledRead(_));
        if peer_drops_recv {
            // never finished locally: the only way stopped() can resolve is the peer's implicit stop(0)
            let _ = stopped_by_peer;
            match op!(o, "cli.stopped", s.stopped()) {
                Ok(Some(c)) if c.into_inner() == 0 => {}
                r => return o.fail("O6:recv-drop", format!("stopped() after peer dropped RecvStream: {r:?}, expected Ok(Some(0))")),
            }
            match op!(o, "cli.write", s.write(b"x")) {
                Err(quinn::WriteError::Stopped(c)) if c.into_inner() == 0 => {}
                r => return o.fail("O6:recv-drop", format!("write after peer dropped RecvStream: {r:?}, expected Err(Stopped(0))")),
            }
            continue;
        }
        if let Err(e) = s.finish() {
            return o.fail("O2:finish", format!("finish: {e:?}"));
        }
        match op!(o, "cli.stopped", s.stopped()) {
            Ok(None) => {}
            Err(quinn::StoppedError::ConnectionLost(e)) if server_drops_conn && cerr(&e) == "app(0,\"\")" => {
                conn_lost = true;
                break 'streams;
            }
            r => return o.fail("O1:stopped", format!("stopped() on finished {key}: {r:?}, expected Ok(None)")),
        }
    }
    let _ = conn_lost;
    match o.drop {
        DropV::CliConnInsteadOfClose => drop(conn),
        DropV::SrvConnAfterReads(_) => {
            let e = op!(o, "cli.closed", conn.closed());
            if cerr(&e) != expected_peer_close(&o, false) {
                o.fail("O6:conn-drop", format!("closed() = {} after peer dropped its last Connection handle, expected app(0,\"\")", cerr(&e)));
            }
            drop(conn);
        }
        _ => {
            conn.close(VarInt::from_u32(0), b"done");
            let e = op!(o, "cli.closed", conn.closed());
            if cerr(&e) != "local" {
                o.fail("O1:closed", format!("client closed() = {}, expected LocallyClosed", cerr(&e)));
            }
            drop(conn);
        }
    }
    if let Some(e) = ep.take() {
        op!(o, "cli.wait_idle", e.wait_idle());
        drop(e);
    }
    o.stage("done");
}

async fn s1_server_conn(o: Arc<Obs>, inc: Incoming, ep: Endpoint) {
    let conn = match aw!(o, "srv.handshake", inc.into_future()) {
        Ok(c) => c,
        Err(e) => {
            ep.close(VarInt::from_u32(77), b"ep");
            return o.fail("O1:accept", format!("incoming.await: {}", cerr(&e)));
        }
    };
    let mut conn = Some(conn);
    let nstreams = stream_plan(o.scen).len();
    let exp_close = expected_peer_close(&o, true);
    'streams: for si in 0..nstreams {
        let c = conn.as_ref().unwrap();
        let mut r = match op!(o, "srv.accept_uni", c.accept_uni()) {
            Ok(r) => r,
            Err(e) if cerr(&e) == exp_close => {
                o.note("accept_uni_cut_by_close", 1);
                break 'streams;
            }
            Err(e) => {
                o.fail("O1:accept_uni", format!("accept_uni #{si}: {}", cerr(&e)));
                break 'streams;
            }
        };
        let id = sid(r.id());
        let key = format!("uni{si}");
        let mut reads = 0u32;
        let mut buf = [0u8; 700];
        loop {
            if si == 0 {
                match o.drop {
                    DropV::RecvAfterReads(j) if j == reads => {
                        let before = o.world.waker_refs(current_task());
                        drop(r);
                        let after = o.world.waker_refs(current_task());
                        if after > before {
                            o.fail("O5:stale-registration:RecvStream", format!("waker clones after RecvStream drop: before={before} after={after}"));
                        }
                        o.note("recv_dropped", 1);
                        continue 'streams;
                    }
                    DropV::SrvConnAfterReads(j) if j == reads => {
                        drop(r);
                        conn.take();
                        o.note("srv_conn_dropped", 1);
                        break 'streams;
                    }
                    DropV::RecvAfterCancelledRead(j) if reads >= j => {
                        let before = o.world.waker_refs(current_task());
                        let mut polls = 0u32;
                        let res = {
                            let f = r.read(&mut buf);
                            let mut f = std::pin::pin!(f);
                            PollN { f: f.as_mut(), plan: Some((1, Mode::Now)), done: 0, polls: &mut polls, iw: None }.await
                        };
                        match res {
                            None => {
                                drop(r);
                                let after = o.world.waker_refs(current_task());
                                if after > before {
                                    o.fail(
                                        "O5:stale-registration:RecvStream",
                                        format!("waker clones held after dropping a pending read and its RecvStream: before={before} after={after}"),
                                    );
                                }
                                o.note("recv_dropped_after_cancelled_read", 1);
                                continue 'streams;
                            }
                            Some(Ok(Some(n))) => {
                                if !o.got(&key, id, &buf[..n]) {
                                    o.fail("O2:integrity", format!("{key}: bytes differ from the pattern"));
                                }
                                reads += 1;
                                continue;
                            }
                            Some(Ok(None)) => {
                                o.set_eof(&key);
                                break;
                            }
                            Some(Err(e)) => {
                                o.fail("O2:read-error", format!("{key}: {e:?}"));
                                break 'streams;
                            }
                        }
                    }
                    _ => {}
                }
            }
            match op!(o, "srv.read", r.read(&mut buf)) {
                Ok(Some(n)) if n > 0 && n <= 700 => {
                    if !o.got(&key, id, &buf[..n]) {
                        o.fail("O2:integrity", format!("{key}: bytes at read {reads} differ from the pattern"));
                    }
                    reads += 1;
                }
                Ok(Some(n)) => {
                    o.fail("O2:read-len", format!("read returned Some({n})"));
                    break 'streams;
                }
                Ok(None) => {
                    o.set_eof(&key);
                    break;
                }
                // documented: after CONNECTION_CLOSE the peer may drop data not yet delivered to
                // the application
                Err(quinn::ReadError::ConnectionLost(e)) if cerr(&e) == exp_close => {
                    o.note("read_cut_by_close", 1);
                    break 'streams;
                }
                Err(e) => {
                    o.fail("O2:read-error", format!("{key}: read {reads}: {e:?}"));
                    break 'streams;
                }
            }
        }
    }
    if let Some(c) = conn.take() {
        let e = op!(o, "srv.closed", c.closed());
        if cerr(&e) != exp_close {
            let sig = if o.drop == DropV::CliConnInsteadOfClose { "O6:conn-drop" } else { "O1:closed" };
            o.fail(sig, format!("server closed() = {}, expected {exp_close}", cerr(&e)));
        }
        drop(c);
    }
    ep.close(VarInt::from_u32(77), b"ep");
    drop(ep);
    o.stage("done");
}

// ---------------------------------------------------------------------------------------------
// S2: bidi echo + datagrams

async fn s2_client(o: Arc<Obs>, ep: Endpoint, cc: ClientConfig, saddr: SocketAddr) {
    let connecting = match ep.connect_with(cc, saddr, "localhost") {
        Ok(c) => c,
        Err(e) => return o.fail("O1:connect-call", format!("{e:?}")),
    };
    let conn = match aw!(o, "cli.connect", connecting) {
        Ok(c) => c,
        Err(e) => return o.fail("O1:connect", cerr(&e)),
    };
    let latch = Arc::new(Latch::default());
    {
        let (o, conn, latch) = (o.clone(), conn.clone(), latch.clone());
        o.world.clone().spawn_app("cli.dgram", async move {
            if let Err(e) = conn.send_datagram(Bytes::from(dgram_payload(1, 300))) {
                o.fail("O2:send_datagram", format!("{e:?}"));
            }
            match op!(o, "cli.read_datagram", conn.read_datagram()) {
                Ok(d) if d[..] == dgram_payload(2, 400)[..] => o.note("cli_dgram_ok", 1),
                Ok(d) => o.fail("O2:datagram", format!("client got a datagram of {} bytes that differs from what the server sent", d.len())),
                Err(e) => o.fail("O1:read_datagram", format!("client read_datagram: {}", cerr(&e))),
            }
            latch.arrive();
            drop(conn);
            o.stage("done");
        });
    }
    let (mut s, mut r) = match op!(o, "cli.open_bi", conn.open_bi()) {
        Ok(x) => x,
        Err(e) => return o.fail("O1:open_bi", cerr(&e)),
    };
    let id = sid(s.id());
    let req = pattern_vec(id, 0, 1200);
    let mut off = 0;
    while off < req.len() {
        match op!(o, "cli.write", s.write(&req[off..])) {
            Ok(n) if n > 0 && n <= req.len() - off => off += n,
            r => return o.fail("O2:write-error", format!("{r:?}")),
        }
    }
    o.set_sent("req", id, off);
    if let Err(e) = s.finish() {
        return o.fail("O2:finish", format!("{e:?}"));
    }
    match aw!(o, "cli.read_to_end", r.read_to_end(10_000)) {
        Ok(v) => {
            if v != pattern_vec(id + 1000, 0, 2000) {
                o.fail("O2:integrity", format!("echo: {} bytes, differs from the 2000 patterned bytes the server wrote", v.len()));
            } else {
                o.note("cli_echo_ok", 1);
            }
        }
        Err(e) => return o.fail("O2:read-error", format!("read_to_end: {e:?}")),
    }
    aw!(o, "cli.join", latch.wait(1));
    conn.close(VarInt::from_u32(0), b"done");
    let e = op!(o, "cli.closed", conn.closed());
    if cerr(&e) != "local" {
        o.fail("O1:closed", format!("client closed() = {}", cerr(&e)));
    }
    drop((s, r, conn));
    op!(o, "cli.wait_idle", ep.wait_idle());
    drop(ep);
    o.stage("done");
}

async fn s2_server_conn(o: Arc<Obs>, inc: Incoming, ep: Endpoint) {
    let conn = match aw!(o, "srv.handshake", inc.into_future()) {
        Ok(c) => c,
        Err(e) => {
            ep.close(VarInt::from_u32(77), b"ep");
            return o.fail("O1:accept", cerr(&e));
        }
    };
    let latch = Arc::new(Latch::default());
    {
        let (o, conn, latch) = (o.clone(), conn.clone(), latch.clone());
        o.world.clone().spawn_app("srv.dgram", async move {
            match op!(o, "srv.read_datagram", conn.read_datagram()) {
                Ok(d) if d[..] == dgram_payload(1, 300)[..] => o.note("srv_dgram_ok", 1),
                Ok(d) => o.fail("O2:datagram", format!("server got a datagram of {} bytes that differs from what the client sent", d.len())),
                Err(e) => o.fail("O1:read_datagram", format!("server read_datagram: {}", cerr(&e))),
            }
            latch.arrive();
            drop(conn);
            o.stage("done");
        });
    }
    if let Err(e) = conn.send_datagram(Bytes::from(dgram_payload(2, 400))) {
        o.fail("O2:send_datagram", format!("{e:?}"));
    }
    let run = async {
        let (mut s, mut r) = match op!(o, "srv.accept_bi", conn.accept_bi()) {
            Ok(x) => x,
            Err(e) => return o.fail("O1:accept_bi", cerr(&e)),
        };
        let id = sid(r.id());
        let mut buf = [0u8; 700];
        loop {
            match op!(o, "srv.read", r.read(&mut buf)) {
                Ok(Some(n)) => {
                    if !o.got("req", id, &buf[..n]) {
                        o.fail("O2:integrity", "request bytes differ from the pattern".into());
                    }
                }
                Ok(None) => {
                    o.set_eof("req");
                    break;
                }
                Err(e) => return o.fail("O2:read-error", format!("{e:?}")),
            }
        }
        let resp = pattern_vec(id + 1000, 0, 2000);
        let mut off = 0;
        while off < resp.len() {
            match op!(o, "srv.write", s.write(&resp[off..])) {
                Ok(n) if n > 0 && n <= resp.len() - off => off += n,
                r => return o.fail("O2:write-error", format!("{r:?}")),
            }
        }
        // finishing only after the client's datagram arrived lets the client close as soon as
        // it has the full echo without racing the datagram
        aw!(o, "srv.join", latch.wait(1));
        if let Err(e) = s.finish() {
            return o.fail("O2:finish", format!("{e:?}"));
        }
        match op!(o, "srv.stopped", s.stopped()) {
            Ok(None) => {}
            // the client closes as soon as it has read everything; the ACK of the FIN may lose
            // the race against CONNECTION_CLOSE
            Err(quinn::StoppedError::ConnectionLost(e)) if cerr(&e) == "app(0,\"done\")" => o.note("srv_stopped_cut_by_close", 1),
            r => o.fail("O1:stopped", format!("server stopped(): {r:?}")),
        }
    };
    run.await;
    let e = op!(o, "srv.closed", conn.closed());
    if cerr(&e) != "app(0,\"done\")" {
        o.fail("O1:closed", format!("server closed() = {}", cerr(&e)));
    }
    drop(conn);
    ep.close(VarInt::from_u32(77), b"ep");
    drop(ep);
    o.stage("done");
}

// ---------------------------------------------------------------------------------------------
// S3: waiters

async fn s3_client(o: Arc<Obs>, ep: Endpoint, cc: ClientConfig, saddr: SocketAddr) {
    let connecting = match ep.connect_with(cc, saddr, "localhost") {
        Ok(c) => c,
        Err(e) => return o.fail("O1:connect-call", format!("{e:?}")),
    };
    let conn = match aw!(o, "cli.connect", connecting) {
        Ok(c) => c,
        Err(e) => return o.fail("O1:connect", cerr(&e)),
    };
    let (mut s, mut r) = match op!(o, "cli.open_bi", conn.open_bi()) {
        Ok(x) => x,
        Err(e) => return o.fail("O1:open_bi", cerr(&e)),
    };
    let id = sid(s.id());
    let data = pattern_vec(id, 0, 100);
    match op!(o, "cli.write", s.write(&data)) {
        Ok(100) => {}
        r => return o.fail("O2:write-error", format!("{r:?}")),
    }
    let latch = Arc::new(Latch::default());
    let w = o.world.clone();
    const EXP: &str = "app(9,\"bye\")";
    {
        let (o, c) = (o.clone(), conn.clone());
        w.spawn_app("w.closed", async move {
            let e = op!(o, "w.closed", c.closed());
            if cerr(&e) != EXP {
                o.fail("O1:waiter", format!("closed() = {}, expected {EXP}", cerr(&e)));
            }
            drop(c);
            o.stage("done");
        });
    }
    {
        let (o, latch) = (o.clone(), latch.clone());
        w.spawn_app("w.stopped", async move {
            match op!(o, "w.stopped", s.stopped()) {
                Ok(Some(c)) if c.into_inner() == 5 => {}
                r => o.fail("O1:waiter", format!("stopped() = {r:?}, expected Ok(Some(5))")),
            }
            match op!(o, "w.write", s.write(b"x")) {
                Err(quinn::WriteError::Stopped(c)) if c.into_inner() == 5 => {}
                r => o.fail("O1:waiter", format!("write on stopped stream = {r:?}, expected Err(Stopped(5))")),
            }
            latch.arrive();
            drop(s);
            o.stage("done");
        });
    }
    {
        let (o, c) = (o.clone(), conn.clone());
        w.spawn_app("w.accept_bi", async move {
            match op!(o, "w.accept_bi", c.accept_bi()) {
                Err(e) if cerr(&e) == EXP => {}
                Err(e) => o.fail("O1:waiter", format!("accept_bi() = Err({}), expected {EXP}", cerr(&e))),
                Ok(_) => o.fail("O1:waiter", "accept_bi() yielded a stream the peer never opened".into()),
            }
            drop(c);
            o.stage("done");
        });
    }
    {
        let (o, c) = (o.clone(), conn.clone());
        w.spawn_app("w.read_datagram", async move {
            match op!(o, "w.read_datagram", c.read_datagram()) {
                Err(e) if cerr(&e) == EXP => {}
                Err(e) => o.fail("O1:waiter", format!("read_datagram() = Err({}), expected {EXP}", cerr(&e))),
                Ok(_) => o.fail("O1:waiter", "read_datagram() yielded a datagram nobody sent".into()),
            }
            drop(c);
            o.stage("done");
        });
    }
    {
        let o = o.clone();
        w.spawn_app("w.read", async move {
            let mut buf = [0u8; 64];
            match op!(o, "w.read", r.read(&mut buf)) {
                Err(quinn::ReadError::ConnectionLost(e)) if cerr(&e) == EXP => {}
                x => o.fail("O1:waiter", format!("read on a stream the peer never wrote = {x:?}, expected ConnectionLost({EXP})")),
            }
            drop(r);
            o.stage("done");
        });
    }
    {
        let (o, e) = (o.clone(), ep.clone());
        w.spawn_app("w.wait_idle", async move {
            op!(o, "w.wait_idle", e.wait_idle());
            if e.open_connections() != 0 {
                o.fail("O1:waiter", format!("wait_idle returned with {} open connections", e.open_connections()));
            }
            drop(e);
            o.stage("done");
        });
    }
    aw!(o, "cli.join", latch.wait(1));
    let mut u = match op!(o, "cli.open_uni", conn.open_uni()) {
        Ok(u) => u,
        Err(e) => return o.fail("O1:open_uni", cerr(&e)),
    };
    match op!(o, "cli.write", u.write(b"k")) {
        Ok(1) => {}
        r => return o.fail("O2:write-error", format!("{r:?}")),
    }
    let _ = u.finish();
    let e = op!(o, "cli.closed", conn.closed());
    if cerr(&e) != EXP {
        o.fail("O1:closed", format!("client closed() = {}, expected {EXP}", cerr(&e)));
    }
    drop((u, conn));
    op!(o, "cli.wait_idle", ep.wait_idle());
    drop(ep);
    o.stage("done");
}

async fn s3_server_conn(o: Arc<Obs>, inc: Incoming, ep: Endpoint) {
    let conn = match aw!(o, "srv.handshake", inc.into_future()) {
        Ok(c) => c,
        Err(e) => {
            ep.close(VarInt::from_u32(77), b"ep");
            return o.fail("O1:accept", cerr(&e));
        }
    };
    let w = o.world.clone();
    let run = async {
        let (s2, mut r2) = match op!(o, "srv.accept_bi", conn.accept_bi()) {
            Ok(x) => x,
            Err(e) => return o.fail("O1:accept_bi", cerr(&e)),
        };
        let id = sid(r2.id());
        let mut buf = [0u8; 700];
        match op!(o, "srv.read", r2.read(&mut buf)) {
            Ok(Some(n)) => {
                if !o.got("bi", id, &buf[..n]) {
                    o.fail("O2:integrity", "bidi bytes differ from the pattern".into());
                }
            }
            x => return o.fail("O2:read-error", format!("{x:?}")),
        }
        if let Err(e) = r2.stop(VarInt::from_u32(5)) {
            return o.fail("O2:stop", format!("{e:?}"));
        }
        {
            let (o, c) = (o.clone(), conn.clone());
            w.spawn_app("sw.closed", async move {
                let e = op!(o, "sw.closed", c.closed());
                if cerr(&e) != "local" {
                    o.fail("O1:waiter", format!("server closed() = {}, expected LocallyClosed", cerr(&e)));
                }
                drop(c);
                o.stage("done");
            });
        }
        {
            let (o, c) = (o.clone(), conn.clone());
            w.spawn_app("sw.accept_bi", async move {
                match op!(o, "sw.accept_bi", c.accept_bi()) {
                    Err(e) if cerr(&e) == "local" => {}
                    Err(e) => o.fail("O1:waiter", format!("server accept_bi() = Err({})", cerr(&e))),
                    Ok(_) => o.fail("O1:waiter", "server accept_bi() yielded a stream the peer never opened".into()),
                }
                drop(c);
                o.stage("done");
            });
        }
        {
            let o = o.clone();
            w.spawn_app("sw.stopped", async move {
                match op!(o, "sw.stopped", s2.stopped()) {
                    Err(quinn::StoppedError::ConnectionLost(e)) if cerr(&e) == "local" => {}
                    x => o.fail("O1:waiter", format!("server stopped() = {x:?}, expected ConnectionLost(LocallyClosed)")),
                }
                drop(s2);
                o.stage("done");
            });
        }
        let mut ru = match op!(o, "srv.accept_uni", conn.accept_uni()) {
            Ok(r) => r,
            Err(e) => return o.fail("O1:accept_uni", cerr(&e)),
        };
        match op!(o, "srv.read_chunk", ru.read_chunk(16, true)) {
            Ok(Some(c)) if &c.bytes[..] == b"k" => {}
            x => return o.fail("O2:read-error", format!("ack stream: {x:?}")),
        }
        drop(ru);
        drop(r2);
    };
    run.await;
    conn.close(VarInt::from_u32(9), b"bye");
    let e = op!(o, "srv.closed", conn.closed());
    if cerr(&e) != "local" {
        o.fail("O1:closed", format!("server closed() = {}", cerr(&e)));
    }
    drop(conn);
    ep.close(VarInt::from_u32(77), b"ep");
    drop(ep);
    o.stage("done");
}

// ---------------------------------------------------------------------------------------------
// Server accept loop (all scenarios)

// ---------------------------------------------------------------------------------------------
// S4a / S4r: 0-RTT

const S4_EARLY: &[u8] = b"EARLY-request-written-before-the-handshake-completed;";
const S4_TAIL: &[u8] = b"tail-written-after-the-handshake;";
const S4_RETRY1: &[u8] = b"RETRY-first-half;";
const S4_RETRY2: &[u8] = b"retry-second-half.";
const S4_BI_EARLY: &[u8] = b"EARLY-bidirectional-request;";
const S4_BI_RETRY: &[u8] = b"RETRY-bidirectional-request.";
const S4_RESP: &[u8] = b"response-to-the-bidirectional-request: 0123456789abcdefghijklmnopqrstuvwxyz0123456789abcdefghijklmnopqrstuvwxyz";

async fn s4_client(o: Arc<Obs>, ep: Endpoint, cc: ClientConfig, saddr: SocketAddr) {
    let connecting = match ep.connect_with(cc, saddr, "localhost") {
        Ok(c) => c,
        Err(e) => return o.fail("O1:connect-call", format!("connect_with: {e:?}")),
    };
    let conn = match connecting.into_0rtt() {
        Ok(x) => x,
        Err(_) => return o.fail("O7:0rtt-unavailable", "into_0rtt() failed although the client holds a ticket".into()),
    };
    let mut early = match aw!(o, "cli.open_uni.early", conn.open_uni()) {
        Ok(s) => s,
        Err(e) => return o.fail("O1:open_uni", format!("early open_uni: {}", cerr(&e))),
    };
    let early_id = sid(early.id());
    if let Err(e) = aw!(o, "cli.write.early", early.write_all(S4_EARLY)) {
        return o.fail("O7:early-write", format!("write on the early stream before the handshake completed: {e:?}"));
    }
    // a bidirectional early stream as well: both of its handles become stale on rejection
    let (mut ebs, mut ebr) = match aw!(o, "cli.open_bi.early", conn.open_bi()) {
        Ok(x) => x,
        Err(e) => return o.fail("O1:open_bi", format!("early open_bi: {}", cerr(&e))),
    };
    let ebid = sid(ebs.id());
    if let Err(e) = aw!(o, "cli.write.early_bi", ebs.write_all(S4_BI_EARLY)) {
        return o.fail("O7:early-write", format!("write on the early bidirectional stream: {e:?}"));
    }
    // a task of its own is already waiting for the response on the early stream when the handshake
    // completes (it is polled through its own waker only)
    let latch = Arc::new(Latch::default());
    type EarlyRead = (Result<Vec<u8>, quinn::ReadToEndError>, quinn::RecvStream);
    let early_read: Arc<Mutex<Option<EarlyRead>>> = Arc::new(Mutex::new(None));
    {
        let (o, latch, slot) = (o.clone(), latch.clone(), early_read.clone());
        o.world.clone().spawn_app("cli.early_reader", async move {
            let r = aw!(o, "cli.read.early_bi", ebr.read_to_end(4096));
            *slot.lock().unwrap() = Some((r, ebr));
            latch.arrive();
            o.stage("done");
        });
    }
    if let Err(e) = aw!(o, "cli.authenticated", conn.authenticated()) {
        return o.fail("O1:connect", format!("authenticated(): {}", cerr(&e)));
    }
    let ok = o.scen == Scen::S4a;
    if ok {

        if let Err(e) = aw!(o, "cli.write.tail", early.write_all(S4_TAIL)) {
            return o.fail("O7:tail-write", format!("write after accepted 0-RTT: {e:?}"));
        }
        if let Err(e) = early.finish() {
            return o.fail("O2:finish", format!("finish: {e:?}"));
        }
        match aw!(o, "cli.stopped", early.stopped()) {
            Ok(None) => {}
            r => return o.fail("O1:stopped", format!("stopped() on the finished early stream: {r:?}")),
        }
        if let Err(e) = ebs.finish() {
            return o.fail("O2:finish", format!("finish on the early bidirectional stream: {e:?}"));
        }
        aw!(o, "cli.join.early_reader", latch.wait(1));
        match early_read.lock().unwrap().take() {
            Some((Ok(d), _)) if d == S4_RESP => {}
            r => return o.fail("O7:0rtt-response", format!("response on the accepted early bidirectional stream: {:?}", r.map(|(r, _)| r.map(|d| d.len())))),
        }
    } else {
        // the stale handle reports the rejection and nothing else
        match aw!(o, "cli.write.stale", early.write(b"x")) {
            Err(quinn::WriteError::ZeroRttRejected) => {}
            r => return o.fail("O7:stale-handle", format!("write on an early stream after rejection returned {r:?}, expected Err(ZeroRttRejected)")),
        }
        // ... through every operation, also before any new stream took over its id
        match aw!(o, "cli.stopped.stale", early.stopped()) {
            Err(quinn::StoppedError::ZeroRttRejected) => {}
            r => return o.fail("O7:stale-handle", format!("stopped() on an early stream after rejection returned {r:?}, expected Err(ZeroRttRejected): the data never reached the server")),
        }
        match aw!(o, "cli.stopped.stale_bi", ebs.stopped()) {
            Err(quinn::StoppedError::ZeroRttRejected) => {}
            r => return o.fail("O7:stale-handle", format!("stopped() on the early bidirectional stream after rejection returned {r:?}, expected Err(ZeroRttRejected)")),
        }
        // the reader that was already waiting on the early stream learns of the rejection
        aw!(o, "cli.join.early_reader", latch.wait(1));
        let ebr = match early_read.lock().unwrap().take() {
            Some((Err(quinn::ReadToEndError::Read(quinn::ReadError::ZeroRttRejected)), ebr)) => ebr,
            r => return o.fail("O7:stale-handle", format!("a read that was pending on the early bidirectional stream when 0-RTT was rejected returned {:?}, expected Err(ZeroRttRejected)", r.map(|(r, _)| r.map(|d| d.len())))),
        };
        let mut s2 = match aw!(o, "cli.open_uni.retry", conn.open_uni()) {
            Ok(s) => s,
            Err(e) => return o.fail("O1:open_uni", format!("open_uni after rejection: {}", cerr(&e))),
        };
        if sid(s2.id()) != early_id {
            o.note("retry_stream_has_other_id", 1);
        }
        if let Err(e) = aw!(o, "cli.write.retry1", s2.write_all(S4_RETRY1)) {
            return o.fail("O7:retry-write", format!("first write on the fresh stream: {e:?}"));
        }
        // the stale early handle goes away while the fresh stream (same id) is in use
        drop(early);
        if let Err(e) = aw!(o, "cli.write.retry2", s2.write_all(S4_RETRY2)) {
            return o.fail("O7:retry-write", format!("second write on the fresh stream after the stale early handle was dropped: {e:?}"));
        }
        if let Err(e) = s2.finish() {
            return o.fail("O7:retry-finish", format!("finish on the fresh stream after the stale early handle was dropped: {e:?}"));
        }
        match aw!(o, "cli.stopped", s2.stopped()) {
            Ok(None) => {}
            r => return o.fail("O1:stopped", format!("stopped() on the finished retry stream: {r:?}")),
        }
        // the bidirectional request is retried on a fresh stream (which gets the id of the rejected
        // one); the stale handles go away while its response has not been read yet
        let (mut rbs, mut rbr) = match aw!(o, "cli.open_bi.retry", conn.open_bi()) {
            Ok(x) => x,
            Err(e) => return o.fail("O1:open_bi", format!("open_bi after rejection: {}", cerr(&e))),
        };
        if sid(rbs.id()) != ebid {
            o.note("retry_bi_stream_has_other_id", 1);
        }
        if let Err(e) = aw!(o, "cli.write.retry_bi", rbs.write_all(S4_BI_RETRY)) {
            return o.fail("O7:retry-write", format!("write on the fresh bidirectional stream: {e:?}"));
        }
        if let Err(e) = rbs.finish() {
            return o.fail("O7:retry-finish", format!("finish on the fresh bidirectional stream: {e:?}"));
        }
        drop(ebr);
        drop(ebs);
        match aw!(o, "cli.read.retry_bi", rbr.read_to_end(4096)) {
            Ok(d) if d == S4_RESP => {}
            Ok(d) => return o.fail("O7:retry-response", format!("response on the fresh bidirectional stream after the stale early handles were dropped: {} of {} bytes", d.len(), S4_RESP.len())),
            Err(e) => return o.fail("O7:retry-response", format!("reading the response on the fresh bidirectional stream after the stale early handles were dropped: {e:?}")),
        }
    }
    conn.close(VarInt::from_u32(0), b"done");
    let e = aw!(o, "cli.closed", conn.closed());
    if cerr(&e) != "local" {
        o.fail("O1:closed", format!("client closed() = {}, expected LocallyClosed", cerr(&e)));
    }
    drop(conn);
    aw!(o, "cli.wait_idle", ep.wait_idle());
    drop(ep);
    o.stage("done");
}

async fn s4_server_conn(o: Arc<Obs>, inc: Incoming, ep: Endpoint) {
    let conn = match aw!(o, "srv.handshake", inc.into_future()) {
        Ok(c) => c,
        Err(e) => {
            ep.close(VarInt::from_u32(77), b"ep");
            return o.fail("O1:accept", format!("incoming.await: {}", cerr(&e)));
        }
    };
    let mut r = match aw!(o, "srv.accept_uni", conn.accept_uni()) {
        Ok(r) => r,
        Err(e) => {
            ep.close(VarInt::from_u32(77), b"ep");
            return o.fail("O1:accept_uni", format!("accept_uni: {}", cerr(&e)));
        }
    };
    let got = match aw!(o, "srv.read_to_end", r.read_to_end(4096)) {
        Ok(v) => v,
        Err(e) => {
            ep.close(VarInt::from_u32(77), b"ep");
            return o.fail("O2:read", format!("read_to_end: {e:?}"));
        }
    };
    let want: Vec<u8> = if o.scen == Scen::S4a { [S4_EARLY, S4_TAIL].concat() } else { [S4_RETRY1, S4_RETRY2].concat() };
    if got != want {
        o.fail(
            "O7:0rtt-data",
            format!("server application read {:?}, expected {:?}", String::from_utf8_lossy(&got), String::from_utf8_lossy(&want)),
        );
    }
    match aw!(o, "srv.accept_bi", conn.accept_bi()) {
        Ok((mut ss, mut sr)) => {
            let want: &[u8] = if o.scen == Scen::S4a { S4_BI_EARLY } else { S4_BI_RETRY };
            match aw!(o, "srv.read_bi", sr.read_to_end(4096)) {
                Ok(d) if d == want => {}
                r => o.fail("O7:0rtt-data", format!("server read {:?} on the bidirectional stream, expected {:?}", r.map(|d| String::from_utf8_lossy(&d).to_string()), String::from_utf8_lossy(want))),
            }
            if let Err(e) = aw!(o, "srv.write_bi", ss.write_all(S4_RESP)) {
                o.fail("O2:write", format!("server response: {e:?}"));
            }
            let _ = ss.finish();
            let _ = aw!(o, "srv.stopped_bi", ss.stopped());
        }
        Err(e) => o.fail("O1:accept_bi", format!("accept_bi: {}", cerr(&e))),
    }
    let e = aw!(o, "srv.closed", conn.closed());
    if cerr(&e) != "app(0,\"done\")" {
        o.note(&format!("srv_closed:{}", cerr(&e)), 1);
    }
    drop(conn);
    ep.close(VarInt::from_u32(0), b"");
    o.stage("done");
}

// ---------------------------------------------------------------------------------------------
// S5: contended datagram send buffer

const S5_PER_TASK: u16 = 3;
/// three senders: two of them can be blocked at once, so a woken sender may find the buffer taken again
const S5_TASKS: u16 = 3;

async fn s5_sender(o: Arc<Obs>, conn: quinn::Connection, who: u16, latch: Arc<Latch>) {
    for i in 0..S5_PER_TASK {
        let tag = who * 16 + i;
        if let Err(e) = op!(o, "w.send_datagram_wait", conn.send_datagram_wait(Bytes::from(dgram_payload(tag, 600)))) {
            o.fail("O2:send_datagram_wait", format!("sender {who} datagram {i}: {e:?}"));
            break;
        }
    }
    latch.arrive();
    o.stage("done");
}

async fn s5_client(o: Arc<Obs>, ep: Endpoint, cc: ClientConfig, saddr: SocketAddr) {
    let connecting = match ep.connect_with(cc, saddr, "localhost") {
        Ok(c) => c,
        Err(e) => return o.fail("O1:connect-call", format!("connect_with: {e:?}")),
    };
    let conn = match aw!(o, "cli.connect", connecting) {
        Ok(c) => c,
        Err(e) => return o.fail("O1:connect", format!("connect failed: {}", cerr(&e))),
    };
    let latch = Arc::new(Latch::default());
    for who in 1..=S5_TASKS {
        o.world.spawn_app(&format!("cli.sender{who}"), s5_sender(o.clone(), conn.clone(), who, latch.clone()));
    }
    aw!(o, "cli.join", latch.wait(S5_TASKS as u32));
    // the peer closes once it has everything
    let e = aw!(o, "cli.closed", conn.closed());
    if cerr(&e) != "app(0,\"got-all\")" {
        o.fail("O1:closed", format!("client closed() = {}, expected the server's close after it received every datagram", cerr(&e)));
    }
    drop(conn);
    aw!(o, "cli.wait_idle", ep.wait_idle());
    drop(ep);
    o.stage("done");
}

async fn s5_server_conn(o: Arc<Obs>, inc: Incoming, ep: Endpoint) {
    let conn = match aw!(o, "srv.handshake", inc.into_future()) {
        Ok(c) => c,
        Err(e) => {
            ep.close(VarInt::from_u32(77), b"ep");
            return o.fail("O1:accept", format!("incoming.await: {}", cerr(&e)));
        }
    };
    let mut seen = std::collections::BTreeSet::new();
    while seen.len() < (S5_TASKS * S5_PER_TASK) as usize {
        match op!(o, "srv.read_datagram", conn.read_datagram()) {
            Ok(d) => {
                let tag = if d.len() >= 2 { ((d[0] as u16) << 8) | d[1] as u16 } else { 0 };
                if d[..] != dgram_payload(tag, 600)[..] {
                    o.fail("O2:datagram-corrupt", format!("datagram tag {tag} len {} differs from what was sent", d.len()));
                }
                if !seen.insert(tag) {
                    o.fail("O2:datagram-dup", format!("datagram tag {tag} delivered twice"));
                }
            }
            Err(e) => {
                o.fail("O1:read_datagram", format!("server read_datagram after {} datagrams: {}", seen.len(), cerr(&e)));
                break;
            }
        }
    }
    conn.close(VarInt::from_u32(0), b"got-all");
    drop(conn);
    ep.close(VarInt::from_u32(0), b"");
    o.stage("done");
}

/// Give every other ready task (the connection driver in particular) one turn
async fn yield_once() {
    let mut yielded = false;
    std::future::poll_fn(|cx| {
        if yielded {
            std::task::Poll::Ready(())
        } else {
            yielded = true;
            cx.waker().wake_by_ref();
            std::task::Poll::Pending
        }
    })
    .await
}

/// Sleep on the harness runtime's virtual clock
async fn vsleep(o: &Arc<Obs>, d: Duration) {
    let rt = o.world.runtime();
    let mut t = rt.new_timer(rt.now() + d);
    std::future::poll_fn(|cx| t.as_mut().poll(cx)).await
}

// S6: a stream the peer stopped is dropped without reset(); the stream credit it occupies must
// come back (the implicit RESET_STREAM has to reach the peer) although nothing else is going on

async fn s6_client(o: Arc<Obs>, ep: Endpoint, cc: ClientConfig, saddr: SocketAddr) {
    let connecting = match ep.connect_with(cc, saddr, "localhost") {
        Ok(c) => c,
        Err(e) => return o.fail("O1:connect-call", format!("connect_with: {e:?}")),
    };
    let conn = match aw!(o, "cli.connect", connecting) {
        Ok(c) => c,
        Err(e) => return o.fail("O1:connect", format!("connect failed: {}", cerr(&e))),
    };
    let mut s = match op!(o, "cli.open_uni", conn.open_uni()) {
        Ok(s) => s,
        Err(e) => return o.fail("O1:open_uni", format!("first open_uni: {}", cerr(&e))),
    };
    if let Err(e) = op!(o, "cli.write", s.write_all(&[0x11; 300])) {
        return o.fail("O2:write", format!("write on the first stream: {e:?}"));
    }
    match op!(o, "cli.stopped", s.stopped()) {
        Ok(Some(code)) if code == VarInt::from_u32(7) => {}
        other => o.fail("O2:stopped", format!("stopped() = {other:?}, the peer stopped the stream with code 7")),
    }
    // let every acknowledgement owed go out first: the connection is completely idle when the
    // handle is dropped
    aw!(o, "cli.sleep", vsleep(&o, Duration::from_millis(200)));
    // no reset(), no finish(): dropping the handle resets the stream implicitly
    drop(s);
    // the only stream slot the peer allows is occupied until that reset reaches it
    let mut s2 = match op!(o, "cli.open_uni2", conn.open_uni()) {
        Ok(s) => s,
        Err(e) => return o.fail("O1:open_uni", format!("second open_uni: {}", cerr(&e))),
    };
    if let Err(e) = op!(o, "cli.write2", s2.write_all(&[0x22; 200])) {
        o.fail("O2:write", format!("write on the second stream: {e:?}"));
    }
    if let Err(e) = s2.finish() {
        o.fail("O2:finish", format!("finish on the second stream: {e:?}"));
    }
    let e = aw!(o, "cli.closed", conn.closed());
    if cerr(&e) != "app(0,\"got-all\")" {
        o.fail("O1:closed", format!("client closed() = {}, expected the server's close after it read the second stream", cerr(&e)));
    }
    drop(s2);
    drop(conn);
    aw!(o, "cli.wait_idle", ep.wait_idle());
    drop(ep);
    o.stage("done");
}

async fn s6_server_conn(o: Arc<Obs>, inc: Incoming, ep: Endpoint) {
    let conn = match aw!(o, "srv.handshake", inc.into_future()) {
        Ok(c) => c,
        Err(e) => {
            ep.close(VarInt::from_u32(77), b"ep");
            return o.fail("O1:accept", format!("incoming.await: {}", cerr(&e)));
        }
    };
    match op!(o, "srv.accept_uni", conn.accept_uni()) {
        Ok(mut r) => {
            let mut buf = [0u8; 100];
            match op!(o, "srv.read", r.read(&mut buf)) {
                Ok(Some(n)) if n > 0 => {}
                other => o.fail("O2:read", format!("first read on the first stream: {other:?}")),
            }
            if let Err(e) = r.stop(VarInt::from_u32(7)) {
                o.fail("O2:stop", format!("stop: {e:?}"));
            }
            drop(r);
        }
        Err(e) => {
            o.fail("O1:accept_uni", format!("first accept_uni: {}", cerr(&e)));
        }
    }
    match op!(o, "srv.accept_uni2", conn.accept_uni()) {
        Ok(mut r) => match op!(o, "srv.read_to_end", r.read_to_end(10_000)) {
            Ok(d) if d == vec![0x22u8; 200] => {}
            Ok(d) => o.fail("O2:data", format!("second stream delivered {} bytes, 200 of 0x22 were written", d.len())),
            Err(e) => o.fail("O2:read_to_end", format!("second stream: {e:?}")),
        },
        Err(e) => {
            o.fail("O1:accept_uni", format!("second accept_uni: {}", cerr(&e)));
        }
    }
    conn.close(VarInt::from_u32(0), b"got-all");
    drop(conn);
    ep.close(VarInt::from_u32(0), b"");
    o.stage("done");
}

// S7: bulk data both ways plus datagrams, for receive-batch shapes (C19: the endpoint splits
// coalesced receive buffers back into the original datagrams by their stride)

const S7_UP: [usize; 9] = [1000, 3000, 700, 5000, 1, 2500, 9000, 333, 12_000];
const S7_DOWN: usize = 20_000;

fn s7_note_stats(o: &Arc<Obs>, who: &str, conn: &quinn::Connection) {
    let st = conn.stats();
    o.note(&format!("{who}_lost_packets"), st.path.lost_packets as i64);
    o.note(&format!("{who}_udp_rx_datagrams"), st.udp_rx.datagrams as i64);
}

async fn s7_client(o: Arc<Obs>, ep: Endpoint, cc: ClientConfig, saddr: SocketAddr) {
    let connecting = match ep.connect_with(cc, saddr, "localhost") {
        Ok(c) => c,
        Err(e) => return o.fail("O1:connect-call", format!("connect_with: {e:?}")),
    };
    let conn = match aw!(o, "cli.connect", connecting) {
        Ok(c) => c,
        Err(e) => return o.fail("O1:connect", format!("connect failed: {}", cerr(&e))),
    };
    // datagrams of unequal sizes with nothing else pending: packets that are not full, so that
    // segmentation-offload batches end in a short segment and several batches arrive together
    for (i, len) in [1100usize, 1100, 500, 1100, 1100, 300, 1100, 700, 1100].iter().enumerate() {
        if let Err(e) = conn.send_datagram(Bytes::from(dgram_payload(100 + i as u16, *len))) {
            o.fail("O2:send_datagram", format!("datagram {i} of {len} bytes: {e:?}"));
        }
    }
    aw!(o, "cli.sleep", vsleep(&o, Duration::from_millis(50)));
    let mut s = match op!(o, "cli.open_uni", conn.open_uni()) {
        Ok(s) => s,
        Err(e) => return o.fail("O1:open_uni", format!("open_uni: {}", cerr(&e))),
    };
    let id = sid(s.id());
    let total: usize = S7_UP.iter().sum();
    let data = pattern_vec(id, 0, total);
    let mut off = 0;
    for (i, len) in S7_UP.iter().enumerate() {
        if let Err(e) = op!(o, "cli.write", s.write_all(&data[off..off + len])) {
            return o.fail("O2:write", format!("write {i}: {e:?}"));
        }
        off += len;
        // small datagrams in between give the batches mixed sizes
        let _ = conn.send_datagram(Bytes::from(dgram_payload(i as u16, 40 + 97 * i)));
        // let the driver flush what is there: a short packet, then more in the same instant
        aw!(o, "cli.yield", yield_once());
    }
    if let Err(e) = s.finish() {
        o.fail("O2:finish", format!("{e:?}"));
    }
    match op!(o, "cli.accept_uni", conn.accept_uni()) {
        Ok(mut r) => {
            let rid = sid(r.id());
            match op!(o, "cli.read_to_end", r.read_to_end(1 << 20)) {
                Ok(d) if d == pattern_vec(rid, 0, S7_DOWN) => {}
                Ok(d) => o.fail("O2:data", format!("download: {} bytes obtained, {} written, content equal: {}", d.len(), S7_DOWN, d == pattern_vec(rid, 0, d.len()))),
                Err(e) => o.fail("O2:read_to_end", format!("download: {e:?}")),
            }
        }
        Err(e) => o.fail("O1:accept_uni", format!("accept_uni: {}", cerr(&e))),
    }
    let _ = op!(o, "cli.stopped", s.stopped());
    s7_note_stats(&o, "client", &conn);
    conn.close(VarInt::from_u32(0), b"done");
    drop(s);
    drop(conn);
    aw!(o, "cli.wait_idle", ep.wait_idle());
    drop(ep);
    o.stage("done");
}

async fn s7_server_conn(o: Arc<Obs>, inc: Incoming, ep: Endpoint) {
    let conn = match aw!(o, "srv.handshake", inc.into_future()) {
        Ok(c) => c,
        Err(e) => {
            ep.close(VarInt::from_u32(77), b"ep");
            return o.fail("O1:accept", format!("incoming.await: {}", cerr(&e)));
        }
    };
    match op!(o, "srv.accept_uni", conn.accept_uni()) {
        Ok(mut r) => {
            let rid = sid(r.id());
            let total: usize = S7_UP.iter().sum();
            match op!(o, "srv.read_to_end", r.read_to_end(1 << 20)) {
                Ok(d) if d == pattern_vec(rid, 0, total) => {}
                Ok(d) => o.fail("O2:data", format!("upload: {} bytes obtained, {total} written, content equal: {}", d.len(), d == pattern_vec(rid, 0, d.len()))),
                Err(e) => o.fail("O2:read_to_end", format!("upload: {e:?}")),
            }
        }
        Err(e) => o.fail("O1:accept_uni", format!("accept_uni: {}", cerr(&e))),
    }
    match op!(o, "srv.open_uni", conn.open_uni()) {
        Ok(mut s) => {
            let id = sid(s.id());
            let down = pattern_vec(id, 0, S7_DOWN);
            if let Err(e) = op!(o, "srv.write", s.write_all(&down)) {
                o.fail("O2:write", format!("download write: {e:?}"));
            }
            let _ = s.finish();
            let _ = op!(o, "srv.stopped", s.stopped());
        }
        Err(e) => o.fail("O1:open_uni", format!("server open_uni: {}", cerr(&e))),
    }
    let e = aw!(o, "srv.closed", conn.closed());
    if cerr(&e) != "app(0,\"done\")" {
        o.fail("O1:closed", format!("server closed() = {}", cerr(&e)));
    }
    s7_note_stats(&o, "server", &conn);
    drop(conn);
    ep.close(VarInt::from_u32(0), b"");
    o.stage("done");
}

// S8: many connections shut down at once (more endpoint events queued than the endpoint driver
// handles per poll)

pub fn s8_conns(scen: Scen) -> u32 {
    if scen == Scen::S8x { 330 } else { 170 }
}

async fn s8_client(o: Arc<Obs>, ep: Endpoint, cc: ClientConfig, saddr: SocketAddr) {
    let n = s8_conns(o.scen);
    let latch = Arc::new(Latch::default());
    let conns: Arc<Mutex<Vec<quinn::Connection>>> = Arc::new(Mutex::new(vec![]));
    for i in 0..n {
        let (o, ep, cc, latch, conns) = (o.clone(), ep.clone(), cc.clone(), latch.clone(), conns.clone());
        o.world.clone().spawn_app(&format!("cli.c{i}"), async move {
            let r = async {
                let connecting = ep.connect_with(cc, saddr, "localhost").map_err(|e| format!("connect_with: {e:?}"))?;
                drop(ep);
                let conn = aw!(o, "cli.connect", connecting).map_err(|e| format!("connect: {}", cerr(&e)))?;
                let mut s = aw!(o, "cli.open_uni", conn.open_uni()).map_err(|e| format!("open_uni: {}", cerr(&e)))?;
                let body = [i as u8; 100];
                aw!(o, "cli.write", s.write_all(&body)).map_err(|e| format!("write: {e:?}"))?;
                s.finish().map_err(|e| format!("finish: {e:?}"))?;
                match aw!(o, "cli.stopped", s.stopped()) {
                    Ok(None) => {}
                    r => return Err(format!("stopped(): {r:?}")),
                }
                Ok::<_, String>(conn)
            }
            .await;
            match r {
                Ok(c) => conns.lock().unwrap().push(c),
                Err(e) => o.fail("O1:many-connections", format!("connection {i}: {e}")),
            }
            latch.arrive();
            o.stage("done");
        });
    }
    aw!(o, "cli.join", latch.wait(n));
    let held = conns.lock().unwrap().len();
    if held as u32 != n {
        o.fail("O1:many-connections", format!("{held} of {n} connections were established"));
    }
    ep.close(VarInt::from_u32(0), b"bye");
    conns.lock().unwrap().clear();
    aw!(o, "cli.wait_idle", ep.wait_idle());
    if ep.open_connections() != 0 {
        o.fail("O3:open-connections-after-idle", format!("wait_idle() returned but open_connections() = {}", ep.open_connections()));
    }
    drop(ep);
    o.stage("done");
}

async fn s8_server_conn(o: Arc<Obs>, inc: Incoming, ep: Endpoint) {
    let conn = match aw!(o, "srv.handshake", inc.into_future()) {
        Ok(c) => c,
        Err(e) => return o.fail("O1:accept", format!("incoming.await: {}", cerr(&e))),
    };
    match aw!(o, "srv.accept_uni", conn.accept_uni()) {
        Ok(mut r) => match aw!(o, "srv.read_to_end", r.read_to_end(1000)) {
            Ok(d) if d.len() == 100 && d.iter().all(|b| *b == d[0]) => {}
            r => o.fail("O2:data", format!("server read {:?}, 100 equal bytes were written", r.map(|d| d.len()))),
        },
        Err(e) => o.fail("O1:accept_uni", format!("accept_uni: {}", cerr(&e))),
    }
    let e = aw!(o, "srv.closed", conn.closed());
    if cerr(&e) != "app(0,\"bye\")" {
        o.note(&format!("srv_closed:{}", cerr(&e)), 1);
    }
    drop(conn);
    let done = {
        let mut m = o.m.lock().unwrap();
        let c = m.notes.entry("s8_server_connections_closed".into()).or_insert(0);
        *c += 1;
        *c
    };
    if done == s8_conns(o.scen) as i64 {
        ep.close(VarInt::from_u32(0), b"");
    }
    o.stage("done");
}

// S9: a transfer that tolerates any connection error (for injected socket errors). A connection driver
// that meets a hard socket error ends at once and leaves its connection as it is; what the property
// speaks about is the teardown: every application operation here is raced against a timer, handles are
// dropped when it expires, and then the endpoints must become idle and both drivers end.

struct Race<A, B> {
    a: Pin<Box<A>>,
    b: Pin<Box<B>>,
}

impl<A: Future, B: Future> Future for Race<A, B> {
    type Output = Option<A::Output>;
    fn poll(mut self: Pin<&mut Self>, cx: &mut Context<'_>) -> Poll<Self::Output> {
        if let Poll::Ready(v) = self.a.as_mut().poll(cx) {
            return Poll::Ready(Some(v));
        }
        if self.b.as_mut().poll(cx).is_ready() {
            return Poll::Ready(None);
        }
        Poll::Pending
    }
}

async fn s9_client(o: Arc<Obs>, ep: Endpoint, cc: ClientConfig, saddr: SocketAddr) {
    let work = {
        let ep = ep.clone();
        async move {
            let connecting = ep.connect_with(cc, saddr, "localhost").map_err(|e| format!("{e:?}"))?;
            drop(ep);
            let conn = connecting.await.map_err(|e| cerr(&e))?;
            let mut s = conn.open_uni().await.map_err(|e| cerr(&e))?;
            let body = [7u8; 3000];
            s.write_all(&body).await.map_err(|e| format!("{e:?}"))?;
            s.finish().map_err(|e| format!("{e:?}"))?;
            let _ = s.stopped().await;
            conn.close(VarInt::from_u32(0), b"done");
            let e = conn.closed().await;
            Ok::<String, String>(cerr(&e))
        }
    };
    let o2 = o.clone();
    let r = aw!(o, "cli.work", Race { a: Box::pin(work), b: Box::pin(async move { vsleep(&o2, Duration::from_secs(1)).await }) });
    match r {
        Some(Ok(e)) => o.note(&format!("cli_closed:{e}"), 1),
        Some(Err(e)) => o.note(&format!("cli_error:{e}"), 1),
        None => o.note("cli_gave_up_after_1s", 1),
    }
    aw!(o, "cli.wait_idle", ep.wait_idle());
    if ep.open_connections() != 0 {
        o.fail("O3:open-connections-after-idle", format!("wait_idle() returned but open_connections() = {}", ep.open_connections()));
    }
    drop(ep);
    o.stage("done");
}

async fn s9_server_conn(o: Arc<Obs>, inc: Incoming, _ep: Endpoint) {
    let work = async move {
        let conn = inc.into_future().await.map_err(|e| cerr(&e))?;
        if let Ok(mut r) = conn.accept_uni().await {
            let _ = r.read_to_end(10_000).await;
        }
        let e = conn.closed().await;
        Ok::<String, String>(cerr(&e))
    };
    let o2 = o.clone();
    let r = aw!(o, "srv.work", Race { a: Box::pin(work), b: Box::pin(async move { vsleep(&o2, Duration::from_secs(2)).await }) });
    match r {
        Some(Ok(e)) => o.note(&format!("srv_closed:{e}"), 1),
        Some(Err(e)) => o.note(&format!("srv_error:{e}"), 1),
        None => o.note("srv_gave_up_after_2s", 1),
    }
    o.stage("done");
}

// S10: datagrams that arrived before the peer's close are read after it

async fn s10_client(o: Arc<Obs>, ep: Endpoint, cc: ClientConfig, saddr: SocketAddr) {
    let connecting = match ep.connect_with(cc, saddr, "localhost") {
        Ok(c) => c,
        Err(e) => return o.fail("O1:connect-call", format!("{e:?}")),
    };
    let conn = match aw!(o, "cli.connect", connecting) {
        Ok(c) => c,
        Err(e) => return o.fail("O1:connect", cerr(&e)),
    };
    let e = aw!(o, "cli.closed", conn.closed());
    if cerr(&e) != "app(5,\"sent-all\")" {
        o.fail("O1:closed", format!("client closed() = {}, expected the server's close", cerr(&e)));
    }
    // (how many of the three had been put on the wire before the close is the server's note; the
    // network is lossless and FIFO, so exactly those arrived before the close)
    let mut got = 0u16;
    loop {
        match aw!(o, "cli.read_datagram", conn.read_datagram()) {
            Ok(d) if got < 3 && d[..] == dgram_payload(40 + got, 200 + 50 * got as usize)[..] => got += 1,
            Ok(d) => {
                o.fail("O2:datagram", format!("datagram {got} read after the close: {} bytes, not what was sent", d.len()));
                break;
            }
            Err(_) => break,
        }
    }
    let sent = o.m.lock().unwrap().notes.get("s10_datagrams_transmitted_before_close").copied().unwrap_or(0);
    if (got as i64) < sent {
        o.fail("O2:datagram-lost-at-close", format!("{sent} datagrams had left the server before its close (lossless FIFO network), but after the close read_datagram() handed over only {got}"));
    }
    drop(conn);
    aw!(o, "cli.wait_idle", ep.wait_idle());
    drop(ep);
    o.stage("done");
}

async fn s10_server_conn(o: Arc<Obs>, inc: Incoming, ep: Endpoint) {
    let conn = match aw!(o, "srv.handshake", inc.into_future()) {
        Ok(c) => c,
        Err(e) => {
            ep.close(VarInt::from_u32(77), b"ep");
            return o.fail("O1:accept", format!("incoming.await: {}", cerr(&e)));
        }
    };
    for i in 0..3u16 {
        if let Err(e) = conn.send_datagram(Bytes::from(dgram_payload(40 + i, 200 + 50 * i as usize))) {
            o.fail("O2:send_datagram", format!("{e:?}"));
        }
    }
    // let the datagrams leave before the close abandons whatever is still queued
    aw!(o, "srv.sleep", vsleep(&o, Duration::from_millis(5)));
    o.note("s10_datagrams_transmitted_before_close", conn.stats().frame_tx.datagram as i64);
    conn.close(VarInt::from_u32(5), b"sent-all");
    drop(conn);
    ep.close(VarInt::from_u32(0), b"");
    o.stage("done");
}

async fn accept_loop(o: Arc<Obs>, ep: Endpoint) {
    let mut n = 0u32;
    if o.scen == Scen::S9 {
        // the server endpoint is shut down after three seconds, whatever happened
        let (o2, ep2) = (o.clone(), ep.clone());
        o.world.clone().spawn_app("srv.watchdog", async move {
            aw!(o2, "srv.watchdog", vsleep(&o2, Duration::from_secs(3)));
            ep2.close(VarInt::from_u32(9), b"watchdog");
            drop(ep2);
            o2.stage("done");
        });
    }
    loop {
        let inc = op!(o, "srv.accept", ep.accept());
        let Some(inc) = inc else { break };
        if o.drop == DropV::IncomingDropped && n == 0 {
            drop(inc);
            ep.close(VarInt::from_u32(77), b"ep");
            n += 1;
            continue;
        }
        if o.drop == DropV::IncomingAfterClose && n == 0 {
            // shutdown races with the accept loop: the endpoint is closed first, the Incoming it had
            // already handed out is accepted afterwards - that must not produce a live connection
            ep.close(VarInt::from_u32(77), b"ep");
            match aw!(o, "srv.late_accept", inc.into_future()) {
                Ok(conn) => {
                    o.fail("O6:accepted-after-endpoint-close", format!("an Incoming accepted after Endpoint::close() became an established connection (close_reason {:?})", conn.close_reason().map(|e| cerr(&e))));
                    drop(conn);
                }
                Err(e) => o.note(&format!("late_accept_result:{}", cerr(&e)), 1),
            }
            n += 1;
            continue;
        }
        let name = format!("srv.conn{n}");
        n += 1;
        let (o2, e2) = (o.clone(), ep.clone());
        match o.scen {
            Scen::S1 | Scen::S1w => o.world.spawn_app(&name, s1_server_conn(o2, inc, e2)),
            Scen::S2 => o.world.spawn_app(&name, s2_server_conn(o2, inc, e2)),
            Scen::S3 => o.world.spawn_app(&name, s3_server_conn(o2, inc, e2)),
            Scen::S4a | Scen::S4r => o.world.spawn_app(&name, s4_server_conn(o2, inc, e2)),
            Scen::S5 => o.world.spawn_app(&name, s5_server_conn(o2, inc, e2)),
            Scen::S6 => o.world.spawn_app(&name, s6_server_conn(o2, inc, e2)),
            Scen::S7 => o.world.spawn_app(&name, s7_server_conn(o2, inc, e2)),
            Scen::S8 | Scen::S8x => o.world.spawn_app(&name, s8_server_conn(o2, inc, e2)),
            Scen::S9 => o.world.spawn_app(&name, s9_server_conn(o2, inc, e2)),
            Scen::S10 => o.world.spawn_app(&name, s10_server_conn(o2, inc, e2)),
        };
    }
    op!(o, "srv.wait_idle", ep.wait_idle());
    drop(ep);
    o.stage("done");
}

// ---------------------------------------------------------------------------------------------
// Runner + oracles

pub struct Outcome {
    pub points: u64,
    pub trace: u64,
    pub stop: Stop,
    pub viol: Vec<(String, String)>,
    pub sites: BTreeMap<(String, u32), u32>,
    pub notes: BTreeMap<String, i64>,
    pub cancels: u32,
    pub polls: u64,
    pub vtime: Duration,
    pub stale_wakes: u64,
    pub tasks: usize,
    pub send_calls: u64,
    pub send_blocked: u64,
    pub dump: Option<String>,
    /// shapes of the receive batches that held more than one datagram
    pub batch_shapes: Vec<Vec<Vec<usize>>>,
}

pub fn pair_cfg(scen: Scen) -> PairCfg {
    let mut cfg = PairCfg::default();
    cfg.client = TCfg::named("c18-client");
    cfg.server = TCfg::named("c18-server");
    if scen == Scen::S1w {
        cfg.server.stream_recv_window = Some(1024);
        cfg.server.max_uni = Some(1);
    }
    if scen == Scen::S5 {
        cfg.client.dgram_send = Some(1000);
    }
    if scen == Scen::S6 {
        cfg.server.max_uni = Some(1);
    }
    if matches!(scen, Scen::S4a | Scen::S4r) {
        // a ticket remembering the server's (real) transport parameters
        static REMEMBERED: std::sync::OnceLock<Vec<u8>> = std::sync::OnceLock::new();
        let base_cfg = cfg.clone();
        let params = REMEMBERED.get_or_init(|| vx::checks::c17::remembered(Instant::now(), &base_cfg)).clone();
        cfg.ticket = Some(mtls::Ticket { server_params: params, secret: [5; 16] });
        cfg.accept_early = scen == Scen::S4a;
    }
    cfg
}

pub const LIMITS: Limits = Limits { max_polls: 20_000, horizon: Duration::from_secs(600) };

pub fn run_spec(base: Instant, spec: &Spec, keep_trace: bool) -> Outcome {
    let world = World::new(base, Duration::from_millis(10), keep_trace);
    // (before the endpoints exist: they size their receive buffers from max_receive_segments())
    if let Some((segs, burst)) = spec.gro {
        world.set_gro(segs, burst);
    }
    if matches!(spec.scen, Scen::S8 | Scen::S8x) {
        world.set_fifo(true);
    }
    let obs = Arc::new(Obs {
        world: world.clone(),
        scen: spec.scen,
        drop: spec.drop,
        cancel: spec.cancel.clone(),
        m: Mutex::new(ObsInner::default()),
    });
    let stop = {
        let cfg = pair_cfg(spec.scen);
        let keylog = Arc::new(mtls::KeyLog::default());
        let rt = world.runtime();
        let sc = sim::server_config(&cfg, keylog.clone(), SimTime::new());
        let saddr = sim::addr(0);
        let caddr = sim::addr(1);
        let sep = Endpoint::new_with_abstract_socket(sim::endpoint_config(1, 8, None), Some(sc), world.socket(saddr), rt.clone())
            .expect("server endpoint");
        let cep = Endpoint::new_with_abstract_socket(sim::endpoint_config(2, 8, None), None, world.socket(caddr), rt.clone())
            .expect("client endpoint");
        let cc = sim::client_config(&cfg, keylog, 0xc1);
        world.spawn_app("srv.accept", accept_loop(obs.clone(), sep));
        match spec.scen {
            Scen::S1 | Scen::S1w => world.spawn_app("cli.main", s1_client(obs.clone(), cep, cc, saddr)),
            Scen::S2 => world.spawn_app("cli.main", s2_client(obs.clone(), cep, cc, saddr)),
            Scen::S3 => world.spawn_app("cli.main", s3_client(obs.clone(), cep, cc, saddr)),
            Scen::S4a | Scen::S4r => world.spawn_app("cli.main", s4_client(obs.clone(), cep, cc, saddr)),
            Scen::S5 => world.spawn_app("cli.main", s5_client(obs.clone(), cep, cc, saddr)),
            Scen::S6 => world.spawn_app("cli.main", s6_client(obs.clone(), cep, cc, saddr)),
            Scen::S7 => world.spawn_app("cli.main", s7_client(obs.clone(), cep, cc, saddr)),
            Scen::S8 | Scen::S8x => world.spawn_app("cli.main", s8_client(obs.clone(), cep, cc, saddr)),
            Scen::S9 => world.spawn_app("cli.main", s9_client(obs.clone(), cep, cc, saddr)),
            Scen::S10 => world.spawn_app("cli.main", s10_client(obs.clone(), cep, cc, saddr)),
        };
        drop(rt);
        world.block_send_at(spec.send_block);
        world.fail_send_at(spec.send_error);
        let devs: BTreeMap<u64, u16> = spec.devs.iter().copied().collect();
        let many = Limits { max_polls: 2_000_000, horizon: LIMITS.horizon };
        world.run(&devs, if matches!(spec.scen, Scen::S8 | Scen::S8x) { &many } else { &LIMITS })
    };
    let points = world.points.load(std::sync::atomic::Ordering::Relaxed);
    let tasks = world.task_table();
    let mut viol: Vec<(String, String)> = vec![];
    let m = std::mem::take(&mut *obs.m.lock().unwrap());
    let stage_of = |id: usize| m.stage.get(&id).cloned().unwrap_or_else(|| "start".into());
    let strip = |s: &str| s.split('#').next().unwrap_or("").to_string();
    let pending_desc = || {
        tasks
            .iter()
            .filter(|t| !t.done)
            .map(|t| format!("{}@{}", t.name, if t.kind == Kind::App { stage_of(t.id) } else { "-".into() }))
            .collect::<Vec<_>>()
            .join(", ")
    };
    let mut all_done = false;
    match &stop {
        Stop::Unavailable => {}
        Stop::Panic(msg) => {
            let short: String = msg.chars().take(80).collect();
            viol.push((format!("O4:panic:{short}"), format!("panic while polling a task: {msg}")));
        }
        Stop::Steps | Stop::Horizon => {
            viol.push((
                "O1:no-quiescence".into(),
                format!("run hit the {:?} bound (t={:?}); unfinished: {}", stop, world.vnow(), pending_desc()),
            ));
        }
        Stop::Quiescent => {
            for t in tasks.iter().filter(|t| !t.done && t.kind == Kind::App) {
                viol.push((
                    format!("O1:lost-wakeup:{}@{}", t.name, strip(&stage_of(t.id))),
                    format!(
                        "world quiescent (no ready task, no datagram in flight, no timer armed) at t={:?} but task {} is still pending in {}; all unfinished: {}",
                        world.vnow(),
                        t.name,
                        stage_of(t.id),
                        pending_desc()
                    ),
                ));
            }
            let apps_done = tasks.iter().all(|t| t.done || t.kind != Kind::App);
            if apps_done {
                for t in tasks.iter().filter(|t| !t.done) {
                    viol.push((
                        format!("O3:driver-alive:{:?}", t.kind),
                        format!(
                            "all application tasks finished and every handle was dropped, the world is quiescent, but {} (spawned by task {}) never completed",
                            t.name,
                            if t.spawned_by == NO_TASK { "-".into() } else { t.spawned_by.to_string() }
                        ),
                    ));
                }
            }
            all_done = tasks.iter().all(|t| t.done);
        }
    }
    for (s, w) in &m.fails {
        viol.push((s.clone(), w.clone()));
    }
    if stop == Stop::Quiescent {
        // O2 end-to-end: what the reader saw vs what the writer wrote
        for (key, got) in &m.recv {
            let id = m.sid.get(key).copied().unwrap_or(0);
            if let Some(sent) = m.sent.get(key) {
                if got.len() > *sent {
                    viol.push(("O2:integrity:extra".into(), format!("{key}: reader got {} bytes, writer wrote {}", got.len(), sent)));
                }
                if m.eof.get(key) == Some(&true) && got.len() != *sent {
                    viol.push((
                        "O2:integrity:short".into(),
                        format!("{key}: reader saw end of stream after {} bytes, writer wrote {} (sid {id})", got.len(), sent),
                    ));
                }
            }
        }
        if spec.scen == Scen::S2 && m.fails.is_empty() && viol.is_empty() {
            for k in ["cli_dgram_ok", "srv_dgram_ok", "cli_echo_ok"] {
                if m.notes.get(k).copied().unwrap_or(0) != 1 {
                    viol.push(("O2:incomplete".into(), format!("S2 finished without {k}")));
                }
            }
        }
    }
    if all_done {
        let ns = world.net_stats();
        if ns.sockets != 0 {
            viol.push(("O3:socket-not-released".into(), format!("{} endpoint socket(s) still alive after every task finished", ns.sockets)));
        }
        if ns.senders != 0 {
            viol.push(("O3:sender-not-released".into(), format!("{} UdpSender(s) still alive after every task finished", ns.senders)));
        }
        if ns.timers != 0 {
            viol.push(("O3:timer-not-released".into(), format!("{} timer(s) still alive after every task finished", ns.timers)));
        }
        for t in &tasks {
            if t.waker_refs > 0 {
                viol.push((
                    format!("O5:waker-leak:{:?}", t.kind),
                    format!("{} clone(s) of the waker of finished task {} are still held somewhere", t.waker_refs, t.name),
                ));
            }
        }
    }
    let dump = if keep_trace {
        let tr = world.trace.lock().unwrap();
        let hist = world.ready_hist.lock().unwrap();
        let mut s = String::new();
        for t in &tasks {
            s.push_str(&format!("task {:2} {:<22} {:?} polls={} done={}\n", t.id, t.name, t.kind, t.polls, t.done));
        }
        let _ = &hist;
        for ev in tr.iter() {
            match ev {
                crate::exec::Ev::Point { p, nready, alt } => {
                    s.push_str(&format!("  [point {p}: {nready} ready{}]", match alt { Some(a) => format!(", DEVIATION alt {a}"), None => String::new() }));
                }
                crate::exec::Ev::Poll { id, done } => {
                    s.push_str(&format!(" poll {} {}{}\n", id, tasks[*id].name, if *done { " -> done" } else { "" }));
                }
                crate::exec::Ev::Deliver { seq, dst, len, at_us, .. } => s.push_str(&format!("\n  t={at_us}us deliver #{seq} -> {dst} ({len} B)\n")),
                crate::exec::Ev::NoSocket { seq } => s.push_str(&format!("  datagram #{seq}: destination socket gone\n")),
                crate::exec::Ev::Timer { id, at_us } => s.push_str(&format!("\n  t={at_us}us timer {id} fires\n")),
                crate::exec::Ev::Writable => s.push_str("\n  socket writable again\n"),
                crate::exec::Ev::Spawn { id } => s.push_str(&format!("  spawn {} {}\n", id, tasks[*id].name)),
            }
        }
        Some(s)
    } else {
        None
    };
    if spec.scen == Scen::S7 && matches!(stop, Stop::Quiescent) {
        for who in ["client", "server"] {
            let lost = m.notes.get(&format!("{who}_lost_packets")).copied().unwrap_or(0);
            if lost > 0 {
                viol.push((
                    "O7:datagrams-lost-on-lossless-network".into(),
                    format!("the {who} declared {lost} packets lost although the in-memory network delivers every datagram in order: what the socket reported was not handed to the protocol datagram by datagram"),
                ));
            }
        }
    }
    let mut notes = m.notes;
    let tb = world.max_timer_batch.load(std::sync::atomic::Ordering::Relaxed);
    if tb > 0 {
        notes.insert("max_timers_expiring_at_one_instant".into(), tb as i64);
    }
    if world.send_errors_fired() > 0 {
        notes.insert("send_errors_fired".into(), world.send_errors_fired() as i64);
    }
    let out = Outcome {
        points,
        trace: world.trace_hash(),
        viol,
        sites: m.sites,
        notes,
        cancels: m.cancels,
        polls: tasks.iter().map(|t| t.polls).sum(),
        vtime: world.vnow(),
        stale_wakes: world.stale_wakes.load(std::sync::atomic::Ordering::Relaxed),
        tasks: tasks.len(),
        send_calls: world.send_calls().0,
        send_blocked: world.send_calls().1,
        stop: stop.clone(),
        dump,
        batch_shapes: world.batch_shapes(),
    };
    world.shutdown(matches!(stop, Stop::Panic(_)));
    out
}
