//! C18 — async API: no lost wakeups, cancellation-safe, clean teardown.
//! Engine E4 (deterministic executor + virtual network/clock under the real `quinn` crate),
//! explored with E2 (deviation-bounded schedule enumeration) and E3 (cancellation / handle-drop
//! point enumeration).

use std::{
    collections::{BTreeMap, BTreeSet},
    sync::Mutex,
    time::Instant,
};

use serde_json::{json, Value};
use vx::{
    explore::{self, deadline, e2, e3, Devs, RunOut},
    report::{self, Args, Report, Tier, Violation},
};

use crate::{
    exec::Stop,
    scen::{run_spec, CancelSpec, DropV, Mode, Outcome, Scen, Spec, CANCEL_SAFE_SITES},
};

const ALTS: u16 = 3;
const SCENS: [Scen; 8] = [Scen::S1, Scen::S1w, Scen::S2, Scen::S3, Scen::S4a, Scen::S4r, Scen::S5, Scen::S6];

#[derive(Default)]
struct Agg {
    viol: Vec<(usize, Devs, String, String, Value)>,
    notes: BTreeMap<String, i64>,
    stale_wakes: u64,
    max_vtime_ms: u64,
    max_polls: u64,
    max_points: u64,
    cancels: u64,
    runs_with_cancel_fired: u64,
    unavailable: u64,
    completed: u64,
}

struct Ctx {
    base: Instant,
    agg: Mutex<Agg>,
}

fn drop_kind(d: DropV) -> &'static str {
    match d {
        DropV::None => "",
        DropV::SendAfterWrites(_) => "/drop-send",
        DropV::RecvAfterReads(_) => "/drop-recv",
        DropV::RecvAfterCancelledRead(_) => "/drop-recv-after-cancelled-read",
        DropV::SrvConnAfterReads(_) => "/drop-srv-conn",
        DropV::CliConnInsteadOfClose => "/drop-cli-conn",
        DropV::EpEarly => "/drop-ep-early",
        DropV::IncomingDropped => "/drop-incoming",
        DropV::IncomingAfterClose => "/incoming-after-close",
        DropV::SendAfterCancelledWrite => "/drop-send-after-cancelled-write",
    }
}

fn family(spec: &Spec) -> String {
    let mut s = format!("{}{}", spec.scen.name(), drop_kind(spec.drop));
    if let Some(c) = &spec.cancel {
        s.push_str(&format!("/cancel:{}", c.site));
    }
    if spec.send_block.is_some() {
        s.push_str("/send-not-writable");
    }
    s
}

impl Ctx {
    /// Execute one spec, fold its outcome into the aggregate, return the E2 view of it
    fn exec(&self, spec: &Spec) -> (RunOut, Outcome) {
        let o = run_spec(self.base, spec, false);
        let mut a = self.agg.lock().unwrap();
        if o.stop == Stop::Unavailable {
            a.unavailable += 1;
            return (RunOut { points: 0, trace: 0, violation: None, note: 1 }, o);
        }
        a.completed += 1;
        for (k, v) in &o.notes {
            *a.notes.entry(k.clone()).or_insert(0) += v;
        }
        a.stale_wakes += o.stale_wakes;
        a.max_vtime_ms = a.max_vtime_ms.max(o.vtime.as_millis() as u64);
        a.max_polls = a.max_polls.max(o.polls);
        a.max_points = a.max_points.max(o.points);
        a.cancels += o.cancels as u64;
        if o.cancels > 0 {
            a.runs_with_cancel_fired += 1;
        }
        let fam = family(spec);
        for (sig, what) in &o.viol {
            a.viol.push((
                spec.devs.len(),
                spec.devs.clone(),
                format!("{sig}|{fam}"),
                format!("{}: {what}", spec.label_with_devs()),
                spec.to_json(),
            ));
        }
        let violation = o.viol.first().cloned();
        (RunOut { points: o.points, trace: o.trace, violation, note: 0 }, o)
    }
}

impl Spec {
    fn label_with_devs(&self) -> String {
        format!("{} devs={:?}", self.label(), self.devs)
    }
}

struct Tally {
    executions: u64,
    per_k: Vec<u64>,
    capped: bool,
    hashes: Vec<u64>,
}

/// E2 over the schedule of one (scenario, drop, cancel) variant
fn explore_schedule(cx: &Ctx, var: &Spec, window_cap: u64, window_from: u64, k: usize, dl: Instant) -> Tally {
    let r = e2(
        |d: &Devs| {
            let mut s = var.clone();
            s.devs = d.clone();
            cx.exec(&s).0
        },
        (window_from, window_cap),
        ALTS,
        k,
        dl,
    );
    let mut per_k = vec![0u64; k + 1];
    let mut hashes = vec![];
    let mut executions = 0;
    for (d, o) in &r.outs {
        if o.note == 1 {
            continue;
        }
        executions += 1;
        per_k[d.len()] += 1;
        hashes.push(o.trace);
    }
    Tally { executions, per_k, capped: r.capped, hashes }
}

fn cancel_specs(sites: &BTreeMap<(String, u32), u32>) -> Vec<CancelSpec> {
    let mut v = vec![];
    let mut names = BTreeSet::new();
    for ((site, occ), polls) in sites {
        if !CANCEL_SAFE_SITES.contains(&site.as_str()) {
            continue;
        }
        names.insert(site.clone());
        let nmax = (*polls).min(6);
        for n in 0..=nmax {
            v.push(CancelSpec { site: site.clone(), occ: Some(*occ), n, mode: Mode::Now });
            if n > 0 {
                v.push(CancelSpec { site: site.clone(), occ: Some(*occ), n, mode: Mode::OnWake });
            }
        }
    }
    // every occurrence of a site cancelled once (covers occurrences that only become pending
    // under other schedules)
    for site in names {
        for n in 0..=2 {
            v.push(CancelSpec { site: site.clone(), occ: None, n, mode: Mode::Now });
            if n > 0 {
                v.push(CancelSpec { site: site.clone(), occ: None, n, mode: Mode::OnWake });
            }
        }
    }
    v
}

fn drop_variants(scen: Scen, reads: u32, writes: u32) -> Vec<DropV> {
    let mut v = vec![];
    for i in 0..=writes {
        v.push(DropV::SendAfterWrites(i));
    }
    for j in 0..=reads.min(8) {
        v.push(DropV::RecvAfterReads(j));
        v.push(DropV::RecvAfterCancelledRead(j));
        v.push(DropV::SrvConnAfterReads(j));
    }
    v.push(DropV::CliConnInsteadOfClose);
    v.push(DropV::EpEarly);
    v.push(DropV::IncomingDropped);
    v.push(DropV::IncomingAfterClose);
    if scen == Scen::S1w {
        v.push(DropV::SendAfterCancelledWrite);
    }
    v
}

fn replay(path: &std::path::Path) -> ! {
    let txt = std::fs::read_to_string(path).unwrap_or_else(|e| report::machinery(&format!("cannot read replay file: {e}")));
    let v: Value = serde_json::from_str(&txt).unwrap_or_else(|e| report::machinery(&format!("bad replay file: {e}")));
    let r = if v.get("replay").is_some() { &v["replay"] } else { &v };
    let spec = Spec::from_json(r).unwrap_or_else(|| report::machinery("replay object is not a C18 spec"));
    let o = run_spec(Instant::now(), &spec, true);
    println!("replay {}", spec.label_with_devs());
    print!("{}", o.dump.clone().unwrap_or_default());
    println!();
    println!(
        "stop={:?} points={} polls={} virtual_time={:?} cancellations_fired={} stale_wakes_of_finished_tasks={} trace={:016x}",
        o.stop, o.points, o.polls, o.vtime, o.cancels, o.stale_wakes, o.trace
    );
    println!("poll_send calls={} refused(not writable)={} notes={:?}", o.send_calls, o.send_blocked, o.notes);
    if o.stop == Stop::Unavailable {
        println!("VERDICT: none (a listed deviation names an alternative that does not exist at its choice point; the execution was abandoned there)");
    } else if o.viol.is_empty() {
        println!("VERDICT: all oracles hold on this execution");
    } else {
        for (s, w) in &o.viol {
            println!("VERDICT: VIOLATION {s}: {w}");
        }
    }
    std::process::exit(0)
}

pub fn main(args: &Args) -> ! {
    if let Some(p) = &args.replay {
        replay(p);
    }
    explore::quiet_panics();
    let thorough = args.tier == Tier::Thorough;
    let dl = deadline(if thorough { 25 * 60 } else { 50 });
    let cx = Ctx { base: Instant::now(), agg: Mutex::new(Agg::default()) };
    let mut rep = Report::new("C18", args, "exploration");
    let k_base = 2;
    let k_var = if thorough { 2 } else { 1 };
    rep.rule = format!(
        "E4: the real quinn crate runs on a harness Runtime/AsyncUdpSocket/AsyncTimer (single-threaded deterministic executor, virtual clock, in-memory network with 10 ms latency, no loss). A choice point is every executor step with >=1 ready task; default = poll the lowest-id ready task; alternatives: 0 = second ready task, 1 = highest-id ready task (needs >=3 ready), 2 = starve all ready tasks for one step and perform the next world event (datagram delivery / timer expiry). E2 enumerates every execution with <=k deviations (k={k_base} for the 4 base scenarios over the whole run{}, k={k_var} for every cancellation point and every handle-drop point). Cancellation points: every await site documented cancel-safe x every occurrence seen in the baseline x every n in 0..=min(polls,6) x (drop immediately | drop when next woken), plus 'every occurrence' variants. Send back-pressure points: each poll_send call index of the baseline returns Pending once. Handle-drop points: SendStream after i writes, RecvStream after j reads (with and without a cancelled pending read), last server Connection handle after j reads, last client Connection handle, Endpoint handle right after connect, Incoming dropped, SendStream after a cancelled pending write. An execution is non-trivial when its trace hash (sequence of task polls, datagram deliveries with content hash, timer firings) differs from the default-schedule baseline of its base scenario; distinct = distinct such hashes. Executions abandoned because a deviation named an unavailable alternative are not counted.",
        if thorough { ", plus k=3 over the first 60 choice points" } else { "" }
    );
    rep.assumptions = vec![
        "task interleaving is at await (poll) granularity on one thread: data races inside a poll are out of scope".into(),
        "send back-pressure: one poll_send call per execution reports 'not writable' (every call index of the baseline is tried); sustained back-pressure is not enumerated".into(),
        "the virtual network delivers every datagram in order after 10 ms; loss/reordering are covered by the protocol-core checks".into(),
        "TLS is the deterministic mock session of vx::mtls; idle timeout and keep-alive are off so that quiescence means 'nothing can ever happen again'".into(),
        "a lost wakeup is only observable if no unrelated later event re-polls the future before the world goes quiescent".into(),
        "stale registrations are observed through waker clone counts and harness-side socket/sender/timer tables; quinn-internal maps are not inspected".into(),
    ];

    // ---- baselines + determinism ------------------------------------------------------------
    let mut base_hash = BTreeMap::new();
    let mut base_out = BTreeMap::new();
    for sc in SCENS {
        let spec = Spec::new(sc);
        let (r1, o1) = cx.exec(&spec);
        let (r2, _) = cx.exec(&spec);
        if r1.trace != r2.trace || r1.points != r2.points {
            report::machinery(&format!("{}: baseline is not deterministic ({:016x}/{} vs {:016x}/{})", sc.name(), r1.trace, r1.points, r2.trace, r2.points));
        }
        if !o1.viol.is_empty() {
            // a failing baseline is a verdict, but make sure it is not the harness
            eprintln!("note: baseline of {} violates: {:?}", sc.name(), o1.viol);
        }
        // one deviated schedule, twice (first point in the middle where alt 2 is available)
        let mut checked = false;
        for p in (o1.points / 2)..o1.points {
            let mut s = spec.clone();
            s.devs = vec![(p, 2)];
            let (a, _) = cx.exec(&s);
            if a.note == 1 {
                continue;
            }
            let (b, _) = cx.exec(&s);
            if a.trace != b.trace || a.points != b.points {
                report::machinery(&format!("{}: deviated schedule {:?} is not deterministic", sc.name(), s.devs));
            }
            if a.trace == r1.trace {
                report::machinery(&format!("{}: deviation {:?} did not change the trace", sc.name(), s.devs));
            }
            checked = true;
            break;
        }
        if !checked {
            report::machinery(&format!("{}: no deviated schedule available for the determinism check", sc.name()));
        }
        base_hash.insert(sc, r1.trace);
        base_out.insert(sc, o1);
    }
    {
        // fresh counters: the determinism runs are not evidence
        let mut a = cx.agg.lock().unwrap();
        let viol = std::mem::take(&mut a.viol);
        *a = Agg::default();
        a.viol = viol;
    }

    let mut all_hashes: BTreeMap<Scen, Vec<u64>> = BTreeMap::new();
    let mut capped_any = false;

    // ---- A. schedule exploration of the base scenarios ---------------------------------------
    let mut part_a = vec![];
    for sc in SCENS {
        let points = base_out[&sc].points;
        let t = explore_schedule(&cx, &Spec::new(sc), 400.min(points.max(1) * 2), 0, k_base, dl);
        capped_any |= t.capped;
        rep.evaluations += t.executions;
        all_hashes.entry(sc).or_default().extend(t.hashes.iter().copied());
        let mut entry = json!({
            "scenario": sc.name(), "choice_points_baseline": points, "tasks": base_out[&sc].tasks,
            "polls_baseline": base_out[&sc].polls, "k": k_base, "window": [0, 400.min(points * 2)],
            "executions": t.executions, "executions_per_k": t.per_k, "capped": t.capped,
        });
        if thorough {
            let t3 = explore_schedule(&cx, &Spec::new(sc), 60, 0, 3, dl);
            capped_any |= t3.capped;
            // levels 0..2 inside the window were already counted above: count level 3 only
            let l3 = t3.per_k.get(3).copied().unwrap_or(0);
            rep.evaluations += l3;
            all_hashes.entry(sc).or_default().extend(t3.hashes.iter().copied());
            entry["k3_window"] = json!([0, 60]);
            entry["k3_executions_level3"] = json!(l3);
            entry["k3_capped"] = json!(t3.capped);
        }
        part_a.push(entry);
    }
    rep.part("A_schedules", json!(part_a));

    // ---- B. cancellation sweep ----------------------------------------------------------------
    let mut part_b = vec![];
    for sc in SCENS {
        let specs = cancel_specs(&base_out[&sc].sites);
        let nspecs = specs.len();
        // default schedule for every cancellation point (E3) ...
        let tasks: Vec<Spec> = specs
            .iter()
            .map(|c| {
                let mut s = Spec::new(sc);
                s.cancel = Some(c.clone());
                s
            })
            .collect();
        let (res, capped) = e3(tasks, dl, |s| cx.exec(s));
        capped_any |= capped;
        let mut fired = 0u64;
        let mut execs = 0u64;
        let mut live: Vec<Spec> = vec![];
        for (s, (r, o)) in &res {
            execs += 1;
            all_hashes.entry(sc).or_default().push(r.trace);
            if o.cancels > 0 {
                fired += 1;
            }
            // ... and schedule exploration for those where a pending future was really dropped
            // or which target every occurrence (other schedules make other occurrences pend)
            let c = s.cancel.as_ref().unwrap();
            if c.occ.is_none() || (o.cancels > 0 && c.n > 0) {
                live.push(s.clone());
            }
        }
        rep.evaluations += execs;
        let mut sched_execs = 0u64;
        for s in &live {
            let t = explore_schedule(&cx, s, 400, 0, k_var, dl);
            capped_any |= t.capped;
            // the k=0 member was already counted in the E3 pass
            sched_execs += t.executions - 1;
            all_hashes.entry(sc).or_default().extend(t.hashes.iter().copied());
        }
        rep.evaluations += sched_execs;
        part_b.push(json!({
            "scenario": sc.name(), "cancellation_points": nspecs, "default_schedule_runs": execs,
            "runs_where_a_future_was_dropped": fired, "points_explored_under_schedules": live.len(),
            "k": k_var, "schedule_executions": sched_execs, "capped": capped,
        }));
    }
    rep.part("B_cancellation", json!(part_b));

    // ---- C. handle-drop sweep -------------------------------------------------------------------
    let mut part_c = vec![];
    for sc in [Scen::S1, Scen::S1w] {
        // stream 0 carries 5000 (S1) / 3000 (S1w) bytes and reads take at most 700: the j-th read
        // boundary is reached under every schedule only for j < ceil(len/700)
        let reads = if sc == Scen::S1 { 7 } else { 4 };
        let writes = if sc == Scen::S1 { 3 } else { 2 };
        let vars = drop_variants(sc, reads, writes);
        let mut execs = 0u64;
        for d in &vars {
            let mut s = Spec::new(sc);
            s.drop = *d;
            let t = explore_schedule(&cx, &s, 400, 0, k_var, dl);
            capped_any |= t.capped;
            execs += t.executions;
            all_hashes.entry(sc).or_default().extend(t.hashes.iter().copied());
        }
        rep.evaluations += execs;
        part_c.push(json!({"scenario": sc.name(), "drop_points": vars.len(), "k": k_var, "executions": execs,
            "variants": vars.iter().map(|d| d.to_json()).collect::<Vec<_>>()}));
    }
    rep.part("C_handle_drops", json!(part_c));

    // ---- D. one refused send (socket not writable) at every poll_send call --------------------
    let mut part_d = vec![];
    for sc in SCENS {
        let calls = base_out[&sc].send_calls;
        let mut execs = 0u64;
        let mut fired = 0u64;
        for b in 0..calls {
            let mut s = Spec::new(sc);
            s.send_block = Some(b);
            let t = explore_schedule(&cx, &s, 400, 0, k_var, dl);
            capped_any |= t.capped;
            execs += t.executions;
            fired += 1;
            all_hashes.entry(sc).or_default().extend(t.hashes.iter().copied());
        }
        part_d.push(json!({"scenario": sc.name(), "poll_send_calls_baseline": calls, "block_points": fired, "k": k_var, "executions": execs}));
    }
    rep.part("D_send_not_writable", json!(part_d));

    // ---- E. many connections shut down at once ---------------------------------------------------
    // (more endpoint events queued than the endpoint driver handles in one poll: 170 / 330 Drained
    // events at one instant; default schedule plus every single deviation at the choice points
    // around the instant the close timers expire)
    let mut part_e = vec![];
    for sc in [Scen::S8, Scen::S8x] {
        if sc == Scen::S8x && !thorough {
            continue;
        }
        let spec = Spec::new(sc);
        let (r1, o1) = cx.exec(&spec);
        let (r2, _) = cx.exec(&spec);
        if r1.trace != r2.trace {
            report::machinery(&format!("{}: baseline is not deterministic", sc.name()));
        }
        let from = o1.points.saturating_sub(if thorough { 1500 } else { 120 });
        let t = explore_schedule(&cx, &spec, o1.points + 50, from, 1, dl);
        capped_any |= t.capped;
        part_e.push(json!({"scenario": sc.name(), "connections": crate::scen::s8_conns(sc), "choice_points_baseline": o1.points, "deviation_window_from": from, "k": 1, "executions": t.executions, "capped": t.capped,
            "max_timers_expiring_at_one_instant": o1.notes.get("max_timers_expiring_at_one_instant").copied()}));
        if o1.notes.get("max_timers_expiring_at_one_instant").copied().unwrap_or(0) <= 160 {
            report::machinery(&format!("vacuity guard: {}: never more than 160 timers (close timers of the connections) expired at one instant", sc.name()));
        }
    }
    rep.part("E_many_connections_closed_at_once", json!(part_e));

    // ---- F. a hard socket error at every poll_send call --------------------------------------------
    // (the connection driver that meets it ends before its connection has drained: the endpoint must
    // still be told, `wait_idle()` must return and both drivers end)
    let mut part_f = vec![];
    {
        let spec = Spec::new(Scen::S9);
        let (r1, o1) = cx.exec(&spec);
        let (r2, _) = cx.exec(&spec);
        if r1.trace != r2.trace {
            report::machinery("S9: baseline is not deterministic");
        }
        let t0 = explore_schedule(&cx, &spec, 400, 0, k_var, dl);
        capped_any |= t0.capped;
        let mut execs = t0.executions;
        let mut fired = 0u64;
        for b in 0..o1.send_calls {
            let mut s = spec.clone();
            s.send_error = Some(b);
            let (_, ob) = cx.exec(&s);
            fired += (ob.notes.get("send_errors_fired").copied().unwrap_or(0) > 0) as u64;
            let t = explore_schedule(&cx, &s, 400, 0, k_var, dl);
            capped_any |= t.capped;
            execs += t.executions;
        }
        if fired == 0 {
            report::machinery("vacuity guard: no injected socket error ever fired");
        }
        part_f.push(json!({"scenario": "S9", "poll_send_calls_baseline": o1.send_calls, "error_points": o1.send_calls, "runs_in_which_the_error_fired": fired, "k": k_var, "executions": execs}));
    }
    rep.part("F_hard_socket_errors", json!(part_f));

    // ---- G. datagrams that arrived before the peer's close are read after it -----------------------
    {
        let spec = Spec::new(Scen::S10);
        let (_, o1) = cx.exec(&spec);
        let t = explore_schedule(&cx, &spec, o1.points * 2, 0, k_base, dl);
        capped_any |= t.capped;
        rep.part("G_datagrams_read_after_close", json!({"scenario": "S10", "choice_points_baseline": o1.points, "k": k_base, "executions": t.executions, "capped": t.capped}));
    }

    // ---- fold --------------------------------------------------------------------------------
    for (sc, hs) in &all_hashes {
        for h in hs {
            if *h != base_hash[sc] {
                rep.distinct.insert(*h);
            }
        }
    }
    if capped_any {
        rep.exhaustive = false;
    }
    let mut agg = std::mem::take(&mut *cx.agg.lock().unwrap());
    // every completed execution (the tallies above count the same executions part by part)
    rep.evaluations = agg.completed;
    agg.viol.sort_by(|a, b| (a.0, &a.1, &a.2).cmp(&(b.0, &b.1, &b.2)));
    for (_, _, sig, what, replay) in agg.viol.drain(..) {
        rep.violation(Violation { signature: sig, what, replay });
    }
    rep.part(
        "observations",
        json!({
            "completed_executions": agg.completed,
            "abandoned_unavailable_alternative": agg.unavailable,
            "futures_dropped_while_pending": agg.cancels,
            "runs_with_a_dropped_future": agg.runs_with_cancel_fired,
            "wakes_of_already_finished_tasks": agg.stale_wakes,
            "max_virtual_time_ms": agg.max_vtime_ms,
            "max_polls_per_run": agg.max_polls,
            "max_choice_points_per_run": agg.max_points,
            "notes": agg.notes,
        }),
    );
    let b = &base_out[&Scen::S1];
    rep.sample(json!({
        "scenario": "S1", "schedule": "default", "choice_points": b.points, "polls": b.polls, "tasks": b.tasks,
        "virtual_time_ms": b.vtime.as_millis() as u64,
        "await_sites(site,occurrence)->pending_polls": b.sites.iter().map(|((s, o), p)| format!("{s}#{o}:{p}")).collect::<Vec<_>>(),
    }));
    rep.sample(json!({"scenario": "S1", "devs": [[40, 2], [77, 0]], "meaning": "at choice point 40 starve the ready task and deliver the next datagram / fire the next timer first; at choice point 77 poll the second-lowest ready task"}));
    rep.sample(json!({"scenario": "S1w", "cancel": {"site": "cli.write", "occ": 1, "n": 1, "mode": "on_wake"}, "meaning": "the 2nd SendStream::write future is polled once (Pending: blocked on flow control), and when the task is next woken the future is dropped unpolled and a fresh write is issued"}));
    rep.sample(json!({"scenario": "S1", "drop": {"recv_after_cancelled_read": 2}, "meaning": "server: at the first pending read after 2 completed reads, drop the read future, then the RecvStream; client never finishes and must see stopped()=Some(0) and write()=Err(Stopped(0))"}));
    rep.sample(json!({"scenario": "S3", "schedule": "default", "waiters": ["closed", "stopped", "accept_bi", "read_datagram", "read", "wait_idle", "server: closed", "server: accept_bi", "server: stopped"]}));
    rep.finish()
}


/// `va c17`: the async layer's part of C17 (0-RTT accepted / rejected through `into_0rtt`, stale
/// early handles). Explores the schedules of S4a / S4r with E2 and prints one JSON object on
/// stdout for `vq c17` to merge; never judges on its own (exit 0).
pub fn c17_async(args: &Args) -> ! {
    explore::quiet_panics();
    let thorough = args.tier == Tier::Thorough;
    let cx = Ctx { base: Instant::now(), agg: Mutex::new(Agg::default()) };
    let dl = deadline(if thorough { 600 } else { 25 });
    let k = if thorough { 3 } else { 2 };
    let mut parts = vec![];
    let mut hashes = std::collections::BTreeSet::new();
    let mut execs = 0u64;
    let mut capped = false;
    for sc in [Scen::S4a, Scen::S4r] {
        let spec = Spec::new(sc);
        let (_, o) = cx.exec(&spec);
        let t = explore_schedule(&cx, &spec, o.points * 2, 0, k, dl);
        execs += t.executions;
        capped |= t.capped;
        hashes.extend(t.hashes.iter().copied());
        parts.push(json!({"scenario": sc.name(), "executions": t.executions, "per_k": t.per_k, "capped": t.capped, "choice_points_baseline": o.points}));
    }
    let a = cx.agg.lock().unwrap();
    let mut seen = std::collections::BTreeSet::new();
    let viol: Vec<serde_json::Value> = a
        .viol
        .iter()
        .filter(|v| seen.insert(v.2.clone()))
        .map(|(_, _, sig, what, replay)| json!({"signature": sig, "what": what, "replay": replay}))
        .collect();
    println!("{}", json!({"executions": execs, "distinct": hashes.len(), "capped": capped, "k": k, "scenarios": parts, "violations": viol}));
    std::process::exit(0)
}

/// `va c16`: the async layer's part of C16 (`send_datagram_wait` blocks and unblocks in step with the
/// datagram send buffer): scenario S5 (three tasks contending for a buffer that holds one datagram)
/// under every schedule with <=k deviations; prints one JSON object for `vq c16` to merge.
pub fn c16_async(args: &Args) -> ! {
    explore::quiet_panics();
    let thorough = args.tier == Tier::Thorough;
    let cx = Ctx { base: Instant::now(), agg: Mutex::new(Agg::default()) };
    let dl = deadline(if thorough { 600 } else { 20 });
    let k = if thorough { 3 } else { 2 };
    let spec = Spec::new(Scen::S5);
    let (_, o) = cx.exec(&spec);
    let t = explore_schedule(&cx, &spec, if thorough { o.points * 2 } else { (o.points * 2).min(300) }, 0, k, dl);
    // a refused send at every poll_send call as well (back-pressure moves when datagrams leave the buffer)
    let mut execs = t.executions;
    let mut capped = t.capped;
    let mut hashes: std::collections::BTreeSet<u64> = t.hashes.iter().copied().collect();
    for b in 0..o.send_calls {
        let mut s = spec.clone();
        s.send_block = Some(b);
        let t2 = explore_schedule(&cx, &s, 300, 0, 1, dl);
        execs += t2.executions;
        capped |= t2.capped;
        hashes.extend(t2.hashes.iter().copied());
    }
    let a = cx.agg.lock().unwrap();
    let mut seen = std::collections::BTreeSet::new();
    let viol: Vec<serde_json::Value> = a
        .viol
        .iter()
        .filter(|v| seen.insert(v.2.clone()))
        .map(|(_, _, sig, what, replay)| json!({"signature": sig, "what": what, "replay": replay}))
        .collect();
    println!("{}", json!({"executions": execs, "distinct": hashes.len(), "capped": capped, "k": k, "choice_points_baseline": o.points, "blocked_waits_baseline": o.sites.iter().filter(|((s, _), p)| s == "w.send_datagram_wait" && **p > 0).count(), "violations": viol}));
    std::process::exit(0)
}

/// `va c19`: the quinn endpoint's receive path (`RecvState::poll_socket`) under receive-offload
/// shaped batches. The in-memory socket coalesces what a GRO-capable kernel would (equal sizes, a
/// shorter last datagram, same source) into one message with a stride and reports several messages
/// per call; every batch must be split back into exactly the datagrams that were sent.
pub fn c19_async(args: &Args) -> ! {
    explore::quiet_panics();
    let thorough = args.tier == Tier::Thorough;
    let cx = Ctx { base: Instant::now(), agg: Mutex::new(Agg::default()) };
    let dl = deadline(if thorough { 600 } else { 25 });
    let k = if thorough { 2 } else { 1 };
    let mut parts = vec![];
    let mut hashes = std::collections::BTreeSet::new();
    let mut execs = 0u64;
    let mut capped = false;
    let mut shapes: std::collections::BTreeSet<Vec<Vec<usize>>> = Default::default();
    for (segs, burst) in [(1usize, true), (2, true), (3, true), (4, true), (10, true), (64, true), (4, false)] {
        let mut spec = Spec::new(Scen::S7);
        spec.gro = Some((segs, burst));
        let (_, o) = cx.exec(&spec);
        shapes.extend(o.batch_shapes.iter().cloned());
        let t = explore_schedule(&cx, &spec, if thorough { o.points } else { o.points.min(400) }, 0, k, dl);
        execs += t.executions;
        capped |= t.capped;
        hashes.extend(t.hashes.iter().copied());
        parts.push(json!({"max_segments_per_message": segs, "burst_delivery": burst, "executions": t.executions, "per_k": t.per_k, "capped": t.capped, "choice_points_baseline": o.points, "multi_datagram_batch_shapes_baseline": o.batch_shapes.len()}));
    }
    // vacuity: some batch must have held a coalesced message with a short tail that was NOT the last message
    let short_tail_inside = shapes.iter().filter(|b| b.iter().rev().skip(1).any(|m| m.len() > 1 && m.last() < m.first())).count();
    let a = cx.agg.lock().unwrap();
    let mut seen = std::collections::BTreeSet::new();
    let viol: Vec<serde_json::Value> = a
        .viol
        .iter()
        .filter(|v| seen.insert(v.2.clone()))
        .map(|(_, _, sig, what, replay)| json!({"signature": sig, "what": what, "replay": replay}))
        .collect();
    println!("{}", json!({"executions": execs, "distinct": hashes.len(), "capped": capped, "k": k, "configurations": parts, "distinct_batch_shapes": shapes.len(), "batch_shape_samples": shapes.iter().take(40).collect::<Vec<_>>(), "batches_with_short_tail_before_last_message": short_tail_inside, "violations": viol}));
    std::process::exit(0)
}
