//! `va c18 [--tier quick|thorough] [--replay <file>]` — check C18 (async API: no lost wakeups,
//! cancellation-safe, clean teardown) on the real `quinn` crate under engine E4.
#[macro_use]
mod scen;
mod c18;
mod exec;

use vx::report;

fn main() {
    let args: Vec<String> = std::env::args().skip(1).collect();
    let Some(which) = args.first().cloned() else {
        report::machinery("usage: va c18 [--tier quick|thorough] [--replay file]");
    };
    let a = report::parse_args(&args[1..]);
    match which.to_lowercase().as_str() {
        "c18" => c18::main(&a),
        "c16" => c18::c16_async(&a),
        "c17" => c18::c17_async(&a),
        "c19" => c18::c19_async(&a),
        other => report::machinery(&format!("unknown check {other}")),
    }
}
