#!/bin/sh
# usage: tools/seed_matrix.sh [seed ids...]  — runs the quick tier of EVERY check against every seeded change
# (in the scratch worktree $M, default /tmp/mut2; never touches /repo) and writes seeded/MATRIX.tsv
cd /verif
export M=${M:-/tmp/mut2}
seeds="${*:-$(ls seeded | grep '^C')}"
out=seeded/MATRIX.tsv
[ -f $out ] || printf 'seed\tcheck\tverdict\tfirst_signature\n' > $out
checks=$(python3 -c "import json;print(' '.join(c['property_id'] for c in json.load(open('MANIFEST.json'))['checks']))")
for s in $seeds; do
  grep -v "^$s	" $out > $out.tmp; mv $out.tmp $out
  for c in $checks; do
    o=$(tools/mutant.sh seeded/$s/patch.diff $c --tier quick 2>&1); rc=$?
    if echo "$o" | grep -q "^VIOLATION property=$c"; then v=caught; elif echo "$o" | grep -q "MUTANT-BUILD-FAILED"; then v=build-failed; elif [ $rc -eq 0 ]; then v=-; else v="rc=$rc"; fi
    sig=$(echo "$o" | grep -E "^  [a-zA-Z0-9:_+./-]+: " | head -1 | cut -c3-100 | cut -d: -f1-2)
    printf '%s\t%s\t%s\t%s\n' "$s" "$c" "$v" "$sig" >> $out
  done
done
echo done > $M/matrix.done
