#!/bin/sh
# usage: tools/confirm_seed.sh Cxx  — confirms a sub-agent's seeded change in its scratch worktree /tmp/seed/Cxx:
# (1) HEAD + patch.diff: the repository's 319-test suite passes; (2) HEAD + patch + demo: demo fails;
# (3) HEAD + demo only: demo passes. On success copies the deliverables to /verif/seeded/Cxx/.
id="$1"; R=${SEEDROOT:-/tmp/seed}; D=${SEEDDEST:-/verif/seeded}; wt=$R/$id; T=${SEEDTARGET:-/tmp/seed/target}
[ -f $wt/out/patch.diff ] || { echo "no patch"; exit 2; }
clean() { git -C $wt reset -q --hard; git -C $wt clean -qfd -e out -e target; }
demo=$(python3 -c "import json;print(json.load(open('$wt/out/meta.json'))['demo_cmd'])" | sed "s#CARGO_TARGET_DIR=[^ ]*##; s#^cd [^&]*&& *##")
export CARGO_TARGET_DIR=$T
clean; git -C $wt apply $wt/out/patch.diff || { echo "patch does not apply"; exit 2; }
suite=$(cd $wt && cargo nextest run --workspace --no-fail-fast --tool-config-file pb:/w/lib/nextest.toml --profile pb --test-threads 8 --offline 2>&1 | grep -E "Summary|error(\[|:)" | head -3)
echo "suite with patch: $suite"
git -C $wt apply $wt/out/demo.diff || { echo "demo does not apply on patch"; exit 2; }
(cd $wt && sh -c "$demo" > $R/$id.demo_with.log 2>&1); rc_with=$?
clean; git -C $wt apply $wt/out/demo.diff
(cd $wt && sh -c "$demo" > $R/$id.demo_without.log 2>&1); rc_without=$?
clean
echo "demo with patch rc=$rc_with (want !=0); demo without patch rc=$rc_without (want 0)"
ok=no
case "$suite" in *"319 passed"*) [ $rc_with -ne 0 ] && [ $rc_without -eq 0 ] && ok=yes ;; esac
echo "confirmed=$ok"
if [ $ok = yes ]; then
  mkdir -p $D/$id
  cp $wt/out/patch.diff $wt/out/demo.diff $D/$id/
  python3 - "$id" "$suite" $rc_with $rc_without "$R" "$D" <<'PY'
import json,sys
id,suite,rw,rwo,R,D=sys.argv[1:7]
m=json.load(open(f'{R}/{id}/out/meta.json'))
m['confirmed']={'suite_with_patch':suite.strip(),'demo_exit_with_patch':int(rw),'demo_exit_without_patch':int(rwo),'how':'tools/confirm_seed.sh in the scratch worktree '+R+'/'+id}
m['demo_cmd_note']='paths in demo_cmd refer to the sub-agent\'s scratch worktree; run it from any checkout with demo.diff applied'
json.dump(m,open(f'{D}/{id}/meta.json','w'),indent=1)
PY
fi
