#!/bin/sh
# usage: tools/runall.sh [quick|thorough]  — runs every claimed check, prints one line each
tier="${1:-quick}"
cd /verif
for id in $(python3 -c "import json;print(' '.join(c['property_id'] for c in json.load(open('MANIFEST.json'))['checks']))"); do
  s=$(date +%s)
  out=$(./check $id --tier $tier 2>&1); rc=$?
  e=$(date +%s)
  echo "$id rc=$rc $((e-s))s $(echo "$out" | grep -c KNOWN-FINDING) known | $(echo "$out" | grep -E "^C[0-9]+ (quick|thorough):" | cut -c1-150)"
  if [ $rc -ne 0 ]; then echo "$out" | grep -v KNOWN | tail -5 | cut -c1-300; fi
done
