#!/bin/sh
# usage: tools/mutant.sh <patch-file|none> <check-id> [args...]
# Applies a patch to a scratch worktree of /repo under /tmp/mut, builds a scratch copy of the
# harness against it and runs one check there. Evidence/replays go to /tmp/mut/out.
# /repo and /verif are never modified. Remove with: tools/mutant.sh clean
set -eu
M=/tmp/mut
if [ "$1" = clean ]; then
  git -C /repo worktree remove --force $M/repo 2>/dev/null || true
  rm -rf $M; exit 0
fi
patch="$1"; id="$2"; shift 2
case "$patch" in none|/*) ;; *) patch="$(pwd)/$patch" ;; esac
mkdir -p $M/out
if [ ! -d $M/repo ]; then git -C /repo worktree add -q --detach $M/repo HEAD; fi
git -C $M/repo reset -q --hard
git -C $M/repo checkout -q --detach "$(git -C /repo rev-parse HEAD)"
git -C $M/repo reset -q --hard
git -C $M/repo clean -qfd
if [ "$patch" != none ]; then git -C $M/repo apply "$patch"; fi
mkdir -p $M/harness
rsync -a --delete --exclude target /verif/harness/ $M/harness/
sed -i "s#/repo/#$M/repo/#g; s#/verif/harness/target#$M/harness/target#g; s#/verif/comp#$M/comp#g; s#/verif/codec#$M/codec#g" $M/harness/Cargo.toml $M/harness/.cargo/config.toml
for d in comp codec; do
  if [ -d /verif/$d ]; then
    mkdir -p $M/$d
    rsync -a --delete --exclude target /verif/$d/ $M/$d/
    sed -i "s#/repo/#$M/repo/#g; s#/verif/$d/target#$M/$d/target#g" $M/$d/Cargo.toml $M/$d/.cargo/config.toml
  fi
done
cd $M/harness
CARGO_NET_OFFLINE=true cargo build --offline -q --bin vq 2>$M/build.log || { tail -30 $M/build.log; echo "MUTANT-BUILD-FAILED"; exit 3; }
VERIF_OUT=$M/out ./target/debug/vq "$id" "$@"
