#!/bin/sh
# usage: tools/mutant.sh <patch-file|none> <check-id> [args...]
# Applies a patch to a scratch worktree of /repo under /tmp/mut, builds a scratch copy of the
# harness against it and runs one check there. Evidence/replays go to /tmp/mut/out.
# /repo and /verif are never modified. Remove with: tools/mutant.sh clean
set -eu
M=${M:-/tmp/mut}
if [ "$1" = clean ]; then
  git -C /repo worktree remove --force $M/repo 2>/dev/null || true
  rm -rf $M; exit 0
fi
patch="$1"; id="$2"; shift 2
case "$patch" in none|/*) ;; *) patch="$(pwd)/$patch" ;; esac
mkdir -p $M/out
if [ ! -d $M/repo ]; then git -C /repo worktree add -q --detach $M/repo HEAD; fi
git -C $M/repo reset -q --hard
git -C $M/repo checkout -q --detach "$(git -C /repo rev-parse HEAD)"
git -C $M/repo reset -q --hard
git -C $M/repo clean -qfd
if [ "$patch" != none ]; then git -C $M/repo apply "$patch"; fi
case "$id" in C18|c18) hd=harness-async; bin=va ;; C19|c19) hd=harness-udp; bin=vudp ;; *) hd=harness; bin=vq ;; esac
extra=""
case "$id" in C16|c16|C17|c17|C19|c19) extra=harness-async ;; esac
for d in harness comp codec $hd $extra; do
  [ -d /verif/$d ] || continue
  mkdir -p $M/$d
  rsync -a --delete --exclude target /verif/$d/ $M/$d/
  for f in $M/$d/Cargo.toml $M/$d/.cargo/config.toml; do
    [ -f $f ] && sed -i "s#/repo/#$M/repo/#g; s#/verif/#$M/#g" $f
  done
done
if [ -n "$extra" ]; then (cd $M/$extra && CARGO_NET_OFFLINE=true cargo build --offline -q --bin va 2>$M/build.log) || { tail -30 $M/build.log; echo "MUTANT-BUILD-FAILED"; exit 3; }; export VERIF_VA_BIN=$M/$extra/target/debug/va; fi
cd $M/$hd
CARGO_NET_OFFLINE=true cargo build --offline -q --bin $bin 2>$M/build.log || { tail -30 $M/build.log; echo "MUTANT-BUILD-FAILED"; exit 3; }
VERIF_OUT=$M/out ./target/debug/$bin "$(echo $id | tr A-Z a-z)" "$@"
