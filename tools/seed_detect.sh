#!/bin/sh
# usage: tools/seed_detect.sh Cxx [check ids...]  — applies /verif/seeded/Cxx/patch.diff to /repo, runs the
# quick tier of the named checks (default: the property's own), records verdicts in seeded/Cxx/detection.json,
# and always restores /repo (git checkout -- .).
id="$1"; shift
D=${SEEDDEST:-/verif/seeded}
checks="${*:-$id}"
cd /verif
[ -z "$(git -C /repo status --porcelain)" ] || { echo "/repo not clean"; exit 2; }
trap 'git -C /repo checkout -- .' EXIT INT TERM
git -C /repo apply $D/$id/patch.diff || exit 2
res=""
for c in $checks; do
  s=$(date +%s); out=$(./check $c --tier quick 2>&1); rc=$?; e=$(date +%s)
  if echo "$out" | grep -q "^VIOLATION property=$c"; then v=caught; elif [ $rc -eq 0 ]; then v=missed; else v="rc=$rc"; fi
  sig=$(echo "$out" | grep -E "^  [a-zA-Z0-9:_+./@#()=,-]+: " | head -1 | cut -c3-260 | sed 's/"/\\"/g')
  echo "$id under $c: $v ($((e-s))s) $sig"
  res="$res{\"check\":\"$c\",\"tier\":\"quick\",\"verdict\":\"$v\",\"seconds\":$((e-s)),\"first_violation\":\"$sig\"},"
done
git -C /repo checkout -- .
python3 - "$id" "[${res%,}]" "$D" <<'PY'
import json,sys,os
id,res,D=sys.argv[1],json.loads(sys.argv[2]),sys.argv[3]
p=f'{D}/{id}/detection.json'
old=json.load(open(p)) if os.path.exists(p) else []
old=[o for o in old if o['check'] not in [r['check'] for r in res]]+res
json.dump(old,open(p,'w'),indent=1)
PY
