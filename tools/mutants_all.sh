#!/bin/sh
# usage: tools/mutants_all.sh [pattern]   — runs every mutants/*.patch against the quick tier of its check(s)
# in the scratch worktree /tmp/mut (see tools/mutant.sh) and, for hand-made mutants, the repository's own
# test suite as well. Writes mutants/RESULTS.tsv. Never touches /repo.
cd /verif
pat="${1:-}"
out=mutants/RESULTS.tsv
[ -z "$pat" ] && printf 'mutant\tcheck\tverdict\tsuite\tfirst_signature\n' > $out
checks_for() {
  case "$1" in
    c12-retry-keeps-in-flight) echo C17 ;;
    c[0-9][0-9]-*) echo "C$(echo $1 | cut -c2-3)" ;;
    reintroduce-F1-*) echo C03 ;; reintroduce-F2-*) echo C04 ;; reintroduce-F3-*) echo C08 ;;
    reintroduce-F4-*) echo C02 ;; reintroduce-F5-*) echo C01 ;; reintroduce-F6-*) echo C19 ;;
    reintroduce-F9-*) echo C10 ;; reintroduce-F10-*) echo C10 ;; reintroduce-F12-*) echo C01 ;;
    reintroduce-F13-*) echo C12 ;; reintroduce-F1[4-9]*) echo C06 ;; reintroduce-F20-*) echo C11 ;;
    reintroduce-F21-*|reintroduce-F22-*) echo C15 ;; reintroduce-F23) echo C16 ;;
    reintroduce-F2[4-9]|reintroduce-F30) echo C17 ;;
    reintroduce-F31) echo C08 ;; reintroduce-F35) echo C20 ;; reintroduce-F36) echo C11 ;; reintroduce-F39) echo C06 ;; reintroduce-F40) echo C08 ;; reintroduce-F41) echo C20 ;; reintroduce-F33|reintroduce-F34) echo C04 ;;
    *) echo "" ;;
  esac
}
for p in mutants/*${pat}*.patch; do
  n=$(basename $p .patch)
  suite="-"
  for c in $(checks_for $n); do
    o=$(tools/mutant.sh $p $c --tier quick 2>&1); rc=$?
    if echo "$o" | grep -q "^VIOLATION property=$c"; then v=caught; elif echo "$o" | grep -q "MUTANT-BUILD-FAILED\|error: patch failed\|does not apply"; then v=build-or-apply-failed; elif [ $rc -eq 0 ]; then v=MISSED; else v="rc=$rc"; fi
    sig=$(echo "$o" | grep -E "^  [a-zA-Z0-9:_+./-]+: " | head -1 | cut -c3-140)
    case $n in c*) if [ "$suite" = "-" ]; then
        s=$(cd /tmp/mut/repo && CARGO_TARGET_DIR=/tmp/mut/repo-target cargo nextest run --workspace --no-fail-fast --tool-config-file pb:/w/lib/nextest.toml --profile pb --test-threads 8 --offline 2>&1 | grep -E "Summary" | sed 's/.*Summary \[[^]]*\] //')
        suite="$s"; fi ;; esac
    printf '%s\t%s\t%s\t%s\t%s\n' "$n" "$c" "$v" "$suite" "$sig" >> $out
  done
done
echo done >> /tmp/mut/all.done
