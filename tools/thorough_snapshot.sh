#!/bin/sh
# usage: tools/thorough_snapshot.sh [tier]  — copies /verif (without build output) to /tmp/vsnap, points its
# crates at the copy, and runs every check's thorough (or given) tier there, so that work can go on in
# /verif meanwhile. /repo is used as it is (keep it clean while this runs). Log: /tmp/vsnap.log
tier="${1:-thorough}"
S=/tmp/vsnap
mkdir -p $S
rsync -a --delete --exclude target --exclude .git --exclude replays /verif/ $S/
for f in $(find $S -name Cargo.toml -o -name config.toml | grep -v /target/); do sed -i "s#/verif/#$S/#g" $f; done
cd $S
: > /tmp/vsnap.log
for id in $(python3 -c "import json;print(' '.join(c['property_id'] for c in json.load(open('MANIFEST.json'))['checks']))"); do
  s=$(date +%s)
  out=$(VERIF_OUT=/tmp/vsnap_out ./check $id --tier $tier 2>&1); rc=$?
  e=$(date +%s)
  echo "$id rc=$rc $((e-s))s $(echo "$out" | grep -c KNOWN-FINDING) known | $(echo "$out" | grep -E "^C[0-9]+ (quick|thorough):" | cut -c1-150)" >> /tmp/vsnap.log
  if [ $rc -ne 0 ]; then echo "$out" | grep -v KNOWN | tail -6 | cut -c1-400 >> /tmp/vsnap.log; fi
done
echo finished >> /tmp/vsnap.log
