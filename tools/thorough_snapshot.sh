#!/bin/sh
# usage: tools/thorough_snapshot.sh [tier] [lanes]  — copies /verif (without build output) to /tmp/vsnap,
# points its crates at the copy, and runs every check's thorough (or given) tier there in `lanes`
# parallel lanes (default 3), so that work can go on in /verif meanwhile. /repo is used as it is (keep it
# clean while this runs). Logs: /tmp/vsnap.<lane>.log, merged view: cat /tmp/vsnap.*.log
tier="${1:-thorough}"
lanes="${2:-3}"
S=/tmp/vsnap
mkdir -p $S
rsync -a --delete --exclude target --exclude .git --exclude replays /verif/ $S/
for f in $(find $S -name Cargo.toml -o -name config.toml | grep -v /target/); do sed -i "s#/verif/#$S/#g" $f; done
cd $S
# build everything once, sequentially
for d in harness harness-async harness-udp; do (cd $S/$d && CARGO_NET_OFFLINE=true cargo build --offline -q 2>/dev/null); done
ids=$(python3 -c "import json;print(' '.join(c['property_id'] for c in json.load(open('MANIFEST.json'))['checks']))")
rm -f /tmp/vsnap.*.log
l=0
while [ $l -lt $lanes ]; do
  (
    : > /tmp/vsnap.$l.log
    i=0
    for id in $ids; do
      if [ $((i % lanes)) -eq $l ]; then
        s=$(date +%s)
        out=$(VERIF_OUT=/tmp/vsnap_out/$id ./check $id --tier $tier 2>&1); rc=$?
        e=$(date +%s)
        echo "$id rc=$rc $((e-s))s $(echo "$out" | grep -c KNOWN-FINDING) known | $(echo "$out" | grep -E "^C[0-9]+ (quick|thorough):" | cut -c1-150)" >> /tmp/vsnap.$l.log
        if [ $rc -ne 0 ]; then echo "$out" | grep -v KNOWN | tail -6 | cut -c1-400 >> /tmp/vsnap.$l.log; fi
      fi
      i=$((i+1))
    done
    echo finished >> /tmp/vsnap.$l.log
  ) &
  l=$((l+1))
done
wait
