#!/usr/bin/env python3
"""Generates /verif/MANIFEST.json from the table below and validates it (and any evidence files)."""
import json, os, sys, subprocess

V = "/verif"
CHECKS = {
 # id: (engine, category, technique, text, note, design_ref)
 "C01": ("E1+E2", "model_checking",
         "deviation-bounded stateless exploration of real endpoints + explicit-state search of real components vs reference models",
         "Every execution with <=k dup/delay/drop deviations inside a fault window, for a list of configurations, workloads, reader modes and scripted key updates / window changes / link-MTU changes, is run on the real client and server; every chunk either application obtains is compared with the written pattern (offset-exact, gap-free for ordered, disjoint for unordered), end-of-stream and reset codes are checked, and the transfer must complete. Component-level BFS by replay (Assembler, SendBuffer, RangeSet, Dedup) against reference models is merged into the same evidence.",
         "Model TLS replaces rustls; payload is a fixed pattern; at most k deviations per execution inside the stated windows.",
         "DESIGN.md#c01"),
 "C03": ("E3", "fault_enumeration",
         "exhaustive hostile-input enumeration against unmodified real endpoints through a puppet peer (authenticated frames), a transport-parameter override and raw datagrams",
         "A puppet peer holding the model-TLS keys replaces one side of an honest connection in a chosen state (handshaking with Initial or Handshake keys, established, mid-transfer, locally closed) and sends every single frame of a hostile alphabet (all frame types at boundary values, malformed and unknown encodings), every ordered pair in 1-RTT and 1000-fold repetitions of resource-consuming frames, against client and server victims under five local configurations. Oracle: no panic, bounded activity, bounded heap growth (counting allocator), a bystander connection on the same endpoint completes, and if the victim terminates, the transport error code is in the set RFC 9000 prescribes/permits for that input and equals the code in CONNECTION_CLOSE on the wire; legal inputs must not terminate. Every transport-parameter edit of a list (boundary values, absent, duplicated, wrong lengths, CID-echo and server-only parameters, truncation at every byte) in both directions: never a panic, valid encodings never rejected, failures only with TRANSPORT_PARAMETER_ERROR. Arbitrary short datagrams into Endpoint::handle in both roles. Datagrams with well-formed short and long headers followed by every small body length (exact, one short, with coalesced garbage, padded) are delivered to live connections of both roles and as first packets; the model header-protection key reads its sample like a real one, so a missing length check panics as it would with rustls.",
         "The property allows hostile input to be ignored, so acceptance of an invalid encoding is counted but not flagged; heap bound is a fixed threshold.",
         "DESIGN.md#c03"),
 "C04": ("E3+E1", "fault_enumeration",
         "exhaustive duplication / mutation / probe enumeration on real endpoints with wire-level ledger and differential oracle; explicit-state search of the replay window (Dedup) against a set model",
         "Every emitted datagram of each baseline is re-delivered after each delay of a list (pairs in thorough) incl. forced key updates: per frame type the receiver must not process more frames than the sender put on the wire (harness decoder). Every (datagram x mutation) corrupted copy is injected and the run must be application-equivalent to the uninjected run (wire-identical after the handshake). Stateless-reset probes (exact / every bit flipped / other CID / other address / too short), Version Negotiation and forged Retry packets are injected at every step index against both roles. Mutations: every bit of the first byte, bit flips in the leading 24 (thorough 32, all bits) and trailing 16 bytes, truncations around each header boundary, extensions.",
         "Model TLS: keyed 128-bit tag stands in for the AEAD; cross-connection splices are decided under C09.",
         "DESIGN.md#c04"),
 "C05": ("E2", "fault_enumeration",
         "deviation-bounded stateless exploration of real endpoints with an independent wire-level flow-control ledger",
         "For each limit configuration (stream / connection / send windows and stream-count limits at 0, 1, 2, 63, 64, 16383, 16384, run-time window and stream-limit changes, reset mid-stream) every execution with <=k dup/delay/drop deviations in the window where MAX_* frames travel is run; credit is computed from the peer's transport parameters (independently decoded) and the MAX_* frames in datagrams actually delivered, use from the STREAM/RESET_STREAM frames the sender emitted; use <= credit is checked at every emission, and the API answers of write()/open() are audited against the probe. A second wire ledger bounds the send window: stream bytes put on the wire and not covered by any ACK frame delivered to the sender (streams it reset excluded) never exceed the largest send window in effect; cases reset a stream while acknowledged ranges sit behind a gap.",
         "A MAX_* frame counts as arrived when its datagram is delivered; 0-RTT judged in C17; vacuity guard requires use == credit to have occurred.",
         "DESIGN.md#c05"),
 "C06": ("E3", "exploration",
         "exhaustive operation-sequence enumeration (puppet frames x local application operations) against a reference model of advertised limits and consumed data",
         "Every sequence of length 3 (quick) / 4 (thorough) over an alphabet of puppet frames probing each limit from one below to one above (STREAM offsets, FINs, RESET_STREAM final sizes, stream indices, DATAGRAM sizes, CRYPTO offsets) interleaved with local read / stop / set_receive_window / set_max_concurrent_streams / datagram-recv operations, for four limit configurations, is executed against a real endpoint whose honest peer was frozen after the handshake. A reference model tracks what the victim advertised on the wire and what its application consumed or discarded: in-limit frames must be accepted, over-limit frames must close with the code of a violated limit, reads must return exactly the model's bytes, every MAX_DATA / MAX_STREAM_DATA must be <= consumed + window, received data never exceeds the limit. A macro operation lets a whole stream live and finish (data, read, FIN, read) so that the endpoint recycles its per-stream state before the next stream's limits are probed.",
         "Between the wire-advertised limit and the limit the endpoint has already decided on (credit too small to be worth a frame, MAX_STREAMS still queued) either answer is accepted; final-size enforcement is not demanded for streams the application already finished (RFC 9000 4.5).",
         "DESIGN.md#c06"),
 "C07": ("E3", "fault_enumeration",
         "exhaustive drop-mask / vanish-point / spoofed-Initial / inciting-size enumeration on the real server endpoint with a byte ledger",
         "Per remote address the harness sums bytes in datagrams delivered to and emitted by the server endpoint; for every datagram emitted before the address is validated (genuine Handshake packet, validated token, echoed PATH_RESPONSE) bytes sent before it must be < 3 x bytes received. Enumerated: all 2^K drop masks of the first K datagrams for certificate size x MTU x Retry x GSO configurations, the client vanishing after every step, single dup/delay of each early datagram, spoofed Initials (sizes 1199/1200/1201/1452, 1-3 copies, with coalesced garbage tails), inciting datagrams of every size 1..=1300 for stateless resets incl. the rate limit, and Initials of every size 1..=1199. Spoofed Initials also carry 1/2/5/20 well-formed but undecryptable coalesced packets.",
         "Received bytes = datagrams delivered from the address and routed to (or creating) a connection; vacuity guard requires the budget boundary to have been reached.",
         "DESIGN.md#c07"),
 "C08": ("E3", "fault_enumeration",
         "exhaustive close/crash-point enumeration on real endpoints with loss masks after the close",
         "For every step index of each baseline run and each of {client close, server close, both, client black-holed, server black-holed}, combined with every drop mask over the first datagrams after the close and duplication of the close packet, the termination oracles are evaluated: ConnectionLost at most once and never for the local closer, the peer's code and reason over a lossless path, drained within 3 PTO (probe value at close), exactly one Drained endpoint event, endpoint forgets the connection and stale datagrams do not route, idle timeout bounds, keep-alive prevents timeout, and CONNECTION_CLOSE is emitted in the same settle step as close() whatever the congestion / pacing / flow-control state. An exact stateless reset reaches the closing side 1 ms / 40 ms after its close (a peer that lost its state), and drained connections are kept and their timers serviced so that anything they still emit (a second Drained, packets, events) is seen.",
         "3*PTO read through the probe hook at close time; server with unvalidated peer and exhausted amplification budget exempt from the prompt-close oracle.",
         "DESIGN.md#c08"),
 "C19": ("E5+E4", "exploration",
         "bounded exhaustive enumeration of transmit shapes over real loopback sockets; deviation-bounded schedule exploration of the quinn endpoint's receive path over a coalescing in-memory socket under a deterministic executor",
         "Every payload length, GSO segment size x count x last-segment shape, ECN codepoint, explicit source address, receive-buffer shape and GRO on/off, on four socket-pair families, is sent through quinn-udp and fully received before the next; the oracle is the Transmit itself (segments byte-identical, in order, stride splits batches, ecn/addr/dst_ip conveyed). Offload-failure fallback is triggered from user space and the following plain transmits are checked.",
         "Kernel behaviour is not owned: a silent receive is retried and then recorded as inconclusive, only a received-but-wrong result is a violation; memory safety of the unsafe cmsg code as such is outside this family.",
         "DESIGN.md#c19"),
 "C09": ("E2+E1", "fault_enumeration",
         "deviation-bounded stateless exploration of one real server endpoint with several concurrent client connections and a per-Endpoint::handle routing oracle; explicit-state search of the CidQueue ring to closure against a map model",
         "Three (later four) client connections from two or three client endpoints run different-length transfers against one server endpoint; every execution with <=2 fate deviations in the scenario window is enumerated for CID lengths 0/1/4/8/20, CID rotation every 200 ms, local_address_changed at several points, connections closed at each listed step with a new connection reusing the freed handle, and stale datagrams delayed past handle reuse. For every Endpoint::handle call the connection the datagram is handed to (identified by a never-reused serial) must be the peer of the connection that produced it; connections nobody closed must complete and the server side must obtain exactly that connection's bytes. One-byte CIDs: exhaustion is reported as CidsExhausted, and 80 short connections beside a long-lived pinging one (CID space wraps) cause no misrouting. After every run, one datagram per (drained connection, connection ID it ever had) is presented again and must not be handed to any existing connection; scenarios combine CID rotation, close, drain and handle reuse.",
         "Counter-based CID generator supplied through the API (the built-in generators draw from the OS RNG); zero-length CIDs use one connection per client endpoint.",
         "DESIGN.md#c09"),
 "C10": ("E3", "exploration",
         "complete enumeration of finite codec domains against independent reference codecs",
         "Every value of the 1/2-byte (quick) and 4-byte (thorough) varint ranges and windows around each power of two above; packet numbers in windows of up to 2^17 around every encoding-size boundary x receiver expectations (RFC 9000 A.3 reference); every header form x CID lengths 0..=20 x token lengths x packet-number sizes x versions incl. coalesced pairs/triples; every frame type over the product of boundary values per field (real encoder, independent decoder, real decoder); transport parameters one-at-a-time and full product; connection IDs, tokens, hashed CID generator; totality: all byte strings up to 2/3 bytes and every single-byte mutation and truncation of the valid corpus into every decoder must return Ok/Err, never panic.",
         "8-byte varint range covered only around powers of two; encoder-budget and decoder-strictness observations outside the property are recorded as informational, not judged.",
         "DESIGN.md#c10"),
 "C18": ("E4", "exploration",
         "deviation-bounded exhaustive task-schedule, cancellation-point and handle-drop enumeration of the real quinn async API under a deterministic executor",
         "The real quinn crate (Endpoint, Connecting, Connection, streams, datagrams, EndpointDriver, ConnectionDriver) runs over a harness Runtime (virtual clock, timer table), an in-memory AsyncUdpSocket pair and model TLS on a single-threaded executor whose choice at every step (which ready task, or starve tasks and deliver a datagram / fire a timer) is enumerated with <=k deviations; every cancel-safe await site is cancelled after every n polls and retried; every handle is dropped at every point; send back-pressure injected at every poll_send. Oracles: at quiescence every application task is done (no lost wakeup), data integrity, drivers terminate and bookkeeping is released, no panic, no stale waker registration, documented drop semantics. Each future instance is polled with its own waker, which becomes inert when the instance is dropped, so a waker kept from a cancelled future loses the wakeup; Scenarios: uni transfers (free and flow-control blocked), bidi echo with datagrams, a set of pending waiters cut by close, 0-RTT accepted / rejected, and two tasks contending for a small datagram send buffer with send_datagram_wait.",
         "Interleaving is at poll granularity on one thread (races inside one poll are out of reach); FIFO loss-free network; tokio primitives used as-is.",
         "DESIGN.md#c18"),
 "C11": ("E3+E2", "model_checking",
         "exhaustive operation-sequence enumeration on a real connection pair compared step by step with a reference model of the stream halves; deviation-bounded exploration for event discipline",
         "Every operation sequence up to the depth bound over open/write/finish/reset/stopped/set_priority (sender), accept/read/read-to-end/stop/received_reset (receiver), the reverse-direction operations of bidirectional streams and two network operations that flush one direction each (so acknowledgements and STOP_SENDING can be withheld), for both initiators and both stream directions, is executed on a real established pair; after every operation the return value, the set of StreamEvents and remote_open_streams() must equal the reference model's. A second part explores <=k fate deviations (incl. a delay beyond the PTO) over workloads with resets, stops, empty streams and a long stopped transfer and checks Finished at most once and only after all data and the FIN reached the peer, Stopped at most once. Terminal notifications must actually come: a finished stream whose data was delivered reports Finished exactly once.",
         "Loss is absent from the sequence part (C01/C02 own it); where the property leaves an answer open (write/finish on a half both finished and stopped) either is accepted; Readable events must never be spurious but need not be exact.",
         "DESIGN.md#c11"),
 "C12": ("E2+E3+E1", "fault_enumeration",
         "deviation-bounded stateless exploration of real endpoints with a harness-dictated congestion window and a wire-level gate oracle; explicit-state search of the built-in controllers",
         "With a harness congestion controller dictating the window (2, 3, 10 datagrams, huge) and with Cubic / NewReno / BBR, incl. ECN-CE marks, Retry, rebinding, migration and key update, every execution with <=k fate deviations is run; each emitted datagram is classified by the independent decoder and an ack-eliciting datagram must not leave when bytes in flight (probe value read before the poll_transmit call plus earlier datagrams of the batch) plus its size reach the window, except owed loss probes, one MTU probe, path-validation packets and CONNECTION_CLOSE. After completion on a quiet network bytes in flight must be 0; fault-free runs over latency x controller x ack-frequency x workload must declare no packet lost. Controller minimum-window search (E1) is merged from /verif/comp. Every drop subset of the first K datagrams with and without Retry, also over a link slower than the initial probe timeout, must end with zero bytes in flight.",
         "Bytes in flight / window / owed probes read through the __verif probe; one open known finding (coalescing bypass) is reported as KNOWN-FINDING.",
         "DESIGN.md#c12"),
 "C13": ("E3+E1", "fault_enumeration",
         "exhaustive (link-MTU, change point, new link-MTU) enumeration on real endpoints with a per-datagram size oracle; explicit-state search of MtuDiscovery",
         "Over a link that silently drops datagrams above M(t), every (M0, change step, M1) triple with M in {1200,1280,1400,1452,1500,9000} is run for configurations varying initial/min MTU, discovery, peer max_udp_payload_size, GSO, pad-to-MTU and certificate size, with stream and datagram workloads. Every emitted datagram is checked against current_mtu() read just before the poll_transmit call, probe bounds (upper bound, peer limit), the 1200-byte rules for client Initials / path validation / loss probes, GSO segment equality; the estimate may rise only to the size of a delivered probe and never below the floor; the transfer must still complete. MtuDiscovery component search (E1) is merged from /verif/comp.",
         "Link MTUs below the configured minimum are outside the premise; one open known finding (pad_to_mtu black-hole deadlock) is reported as KNOWN-FINDING.",
         "DESIGN.md#c13"),
 "C14": ("E1+E3", "model_checking",
         "explicit-state / exhaustive history search of the two token stores against reference models; exhaustive acceptance matrix on the real server endpoint",
         "BloomTokenLog and TokenMemoryCache are driven through every call history up to a depth bound (all capacities incl. those forcing the hash-set-to-bloom conversion) against reference models: no nonce accepted twice, cache agrees exactly with an LRU-of-queues model and never hands a token out twice. Genuine Retry and NEW_TOKEN tokens obtained from real flows are presented unchanged, with every single bit flipped, every truncation, extension, every splice with a second genuine token, from the same address / same IP other port / other IP, at issue time / lifetime-1 s / lifetime+2 s, and a second time; the server's verdict (Incoming validated / may_retry, or stateless INVALID_TOKEN) must match the property. The client must reject server transport parameters whose CID-echo fields are absent, wrong or unexpectedly present, with and without a real Retry.",
         "Real ring AEAD for tokens, model TLS for the handshake; one-second token time resolution, so the exact lifetime boundary is not probed; forged Retry packets use the public Retry integrity key.",
         "DESIGN.md#c14"),
 "C15": ("E3+E2", "fault_enumeration",
         "exhaustive address-event point enumeration on real endpoints (migration, double migration, attacker replay from a spoofed address, migration disabled, off-path datagrams at the client) with single fate deviations",
         "With data flowing (W2, W6) and CID rotation on, at every step index after the handshake the client's source address changes (port only on IPv4 and IPv6, full address), a second migration follows after several gaps, an attacker's copy of a genuine client datagram arrives from a third address ahead of the original (client continuing or silent), the server has migration disabled, or server datagrams reach the client from a foreign address; each combined with every single drop/dup/delay of the next 8 datagrams. Oracles: after a PATH_RESPONSE echoing a challenge sent to the new address was delivered the server reports and uses only that address and the workload completes; until then the 3x byte ledger bounds what is sent there and PATH_CHALLENGE/RESPONSE datagrams are >= 1200 bytes; a spoofed path is abandoned within 3 PTO; without permission to migrate nothing is sent to and no data accepted from the other address.",
         "The migrating client keeps sending from the new address and is reachable there; 3 PTO bound uses max(old-path PTO from the probe, initial PTO of a fresh path).",
         "DESIGN.md#c15"),
 "C16": ("E3+E2", "model_checking",
         "exhaustive admission sweep (every size x MTU state x peer limit x send buffer) on real endpoints with a wire oracle; exhaustive operation-sequence enumeration against a FIFO-with-byte-budget reference model; deviation-bounded exploration for integrity",
         "For EVERY datagram size from 0 to the maximum+2, in three MTU states (initial 1200, after discovery to 1452, after black-hole fallback to 1200), for peer max_datagram_frame_size in {absent, 0, 1, 2, 9, 10, 100, 1200, 65535}, send buffers {default, size, size-1, 0} and datagrams locally disabled, send() on a real established connection must answer exactly as the property states; max_size() must fit one packet on the current path and the peer's limit by independent arithmetic; an accepted datagram must appear exactly once on the wire, in one DATAGRAM frame no larger than the peer's limit inside a UDP datagram no larger than the MTU, and arrive byte-identical. Every sequence up to the depth bound over send(len, drop) / flush / recv / send_buffer_space is compared with a FIFO byte-budget model (Blocked, DatagramsUnblocked exactly once, oldest dropped first on both sides). A mixed stream+datagram workload is explored under <=k fate deviations: every received datagram equals one sent and none is delivered more often than sent+duplicated by the network. Two datagrams handed over back to back (first 1/100/700 bytes, second every size around the space the first leaves) must never produce a UDP datagram above the MTU and must both arrive.",
         "Sequences call send() without polling in between; flush runs a loss-free network to quiescence.",
         "DESIGN.md#c16"),
 "C17": ("E3+E2", "fault_enumeration",
         "exhaustive drop-mask enumeration + deviation-bounded stateless exploration of real endpoints resuming with a ticket, over accept/reject x Retry x late accept x remembered-vs-new parameters, with salted early data and a differential comparison against a fresh connection",
         "A client holding a ticket (model TLS; remembered server parameters taken from a real earlier handshake) starts its workload before the handshake completes. For six early workloads (both stream directions, finishes, resets incl. one issued while the window is full, a stop, empty streams, datagrams within and beyond the initial window, 30 kB of stream data, more streams than a small remembered limit) x accept/reject x Retry x accept at once / at a later step x remembered parameters equal / smaller / larger than the new ones, every drop subset of the first K datagrams (both directions) and every <=k drop/dup/delay deviation is run. Accepted: every early byte reaches the server application exactly once and the workload completes. Rejected: early writes carry a salt, so any early byte, reset code or datagram reaching the server application is detected; every early stream answers ClosedStream; accepted_0rtt() is truthful; at Connected the client's peer limits, stream counters, data_sent, unacknowledged bytes and datagram queue equal those of a fresh ticket-less connection, and so does everything loss-independent at the end. Accepted with reduced limits: the client must not carry on. The quinn crate's side (into_0rtt, ZeroRttRejected from stale early handles, a retry stream reusing the rejected stream's id) runs as two scenarios under the deterministic executor of harness-async with <=k schedule deviations and is merged into this check.",
         "Model TLS decides acceptance by configuration; on rejection the application restarts its workload as the API documentation prescribes; ",
         "DESIGN.md#c17"),
 "C20": ("E3", "fault_enumeration",
         "exhaustive insertion-point enumeration with differential (replay / time-translated / extra-call) runs of real endpoints",
         "For a list of input histories (baselines incl. Retry, CID rotation, key update, rebinding, migration, and every single-deviation history) the run is repeated: identically (bit-identical trace incl. every poll_timeout value), with all Instants shifted by 1 s / 1 day / 10 years (identical relative trace), with a spurious handle_timeout or extra poll round inserted at EVERY step index on either side (identical packets, frames and events), and with all datagrams re-fed plus ten timeouts after both sides drained (no output). A timer may not fire more than 16 consecutive times at one instant. Histories include unroutable datagrams that draw stateless resets (endpoint-level output with random-looking padding).",
         "Entropy supplied through the API (rng_seed, harness CID generator); inserted-call runs are compared on a timing-insensitive trace because pacing arithmetic may round instants differently.",
         "DESIGN.md#c20"),
 "C02": ("E3+E2", "fault_enumeration",
         "exhaustive drop-mask enumeration + deviation-bounded stateless exploration of real endpoints",
         "Bounded liveness decided by running the real client and server endpoints under every drop subset of the first K datagrams (both directions) for a list of transport configurations and event-driven workloads, plus every <=k dup/delay/drop deviation in a window; each execution must complete the workload with every stream delivered and acknowledged. Also every drop subset of K datagrams in the middle of the transfer (from the first datagram after the handshake flight) for un-paced and paced senders, including a workload whose FIN travels in a frame of its own.",
         "Model TLS replaces rustls (binding pass compares abstract traces); losses bounded to the first K datagrams / deviation window; timers serviced exactly on time.",
         "DESIGN.md#c02"),
}

# sentences appended to the level text of checks that were extended after the first write-up
EXTRA = {
 "C01": "Workloads W11/W12 add stop, reset-on-stopped, late finishes and four streams recycling pooled stream state; ClosedStream or silent discard on a stream nobody ended is a violation.",
 "C11": "Variants: a previous stream of the same kind recycled in four ways; a 4-byte stream window with a receiver that never reads (Blocked / partial writes, Stopped takes precedence); a settling tail after every sequence with a send-stream count invariant.",
 "C12": "At every emission the window of a built-in controller is at least two datagrams of the current MTU (also Cubic with the smallest initial window). The BBR search also starts from a warmed-up controller in recovery with small packets and burst losses.",
 "C17": "The async part probes stale early handles through stopped() before any id reuse, for unidirectional and bidirectional early streams.",
 "C15": "Once a challenge went to the new address any single disturbed datagram must still end in validation. Also a full address change to a path with 60 / 250 ms more one-way delay: a genuine slower path that keeps answering must not be given up.",
 "C18": "Handle-drop variant: the endpoint is closed while an Incoming is held and that Incoming is accepted afterwards. S4 includes an early bidirectional stream whose stale handles are dropped while the retry stream's response is unread. Scenario S6: the only permitted stream is stopped by the peer and its handle dropped while the connection is completely idle; the next open_uni must still complete.",
 "C19": "Mixed receive batches on real sockets: a segmentation-offloaded burst and a plain datagram back to back, read with full batches. The quinn endpoint's share (RecvState::poll_socket splitting coalesced receive batches by stride) is explored under the deterministic executor of harness-async over an in-memory socket that coalesces like a GRO-capable kernel, every schedule with <=1 (2) deviations; no packet may be declared lost on a lossless FIFO network.",
 "C02": "One-sided drop masks (every subset of ten consecutive datagrams of one side) and mid-transfer windows for flow-control-limited configurations, so that credit frames and their retransmissions are lost together. A busy-polling driver (extra transmit polls every 50/100/1000 us of virtual time) must make the same progress for rate-limited and window-limited senders.",
 "C03": "Handshake datagrams damaged in transit (original lost, mutated copy arrives, retransmission follows) under the no-panic oracle. Reassembly memory is read through the probe hook after every case (allocated <= 3 x distinct outstanding bytes + 64 KiB per buffer); thorough adds ordered triples.",
 "C04": "The replay window (Dedup) is searched through every insert history over two packet-number alphabets against the set of numbers seen (E1). Retry probes include a second Retry whose tag verifies against the CID in use after the first, and a Retry right behind the server's first datagram cut down to its Initial packet; early datagrams damaged in transit (original lost, mutated copy arrives) must be recovered from.",
 "C05": "Also 0-RTT cases (rejected with lower limits, accepted with higher ones) and asymmetric initial_max_stream_data_* values installed through a transport-parameter override; the ledger reads the parameters actually sent.",
 "C06": "Unordered reads are part of the reference model (data, ordered read, unordered read). Macro operation: the peer keeps sending on a stream the application stopped. Window operations include shrink, partial and full regrow; advertised credit is bounded by consumed + the largest window in effect since the debt was incurred; unread datagram bytes never exceed the configured buffer.",
 "C07": "A path-challenge token is never shown to a second address (wire oracle). Undersized Initials are enumerated for destination CIDs of 0/1/4/7/9/20 bytes with and without a token. Spoofed rebinding: while the server is the bulk sender a copy of a client datagram arrives from the same IP / another port at every step of a window; bytes sent to the unvalidated address stay below 3x what was received from it. Coalesced undecryptable packets are counted once.",
 "C08": "A resumed session with a remembered shorter idle timeout must use the newly negotiated one. Wire oracle: the application's own close frame (0x1d) only in 1-RTT / 0-RTT packets. Also an exact stateless reset reaching the closing side after its close, a doubly migrated client, and late senders (the peer vanishes, the application keeps writing): the sender's own idle timeout must fire within the negotiated period after the last packet received.",
 "C09": "Retry scenarios for CID lengths 0/8/1/20. E1: the ring of peer-issued connection IDs (CidQueue) through every NEW_CONNECTION_ID / switch history until the canonical state space closes, against a map model. At the end of every execution one datagram per (drained connection, CID it had) is presented again and must not reach a connection, and the server's stateless reset for the CID in use is sent to every surviving client connection in turn and must end exactly that one.",
 "C13": "A close with a 4000-byte reason at every step must stay within the path MTU. Peers advertising max_udp_payload_size beyond 16 bits (transport-parameter override). A client address change at every step of a window runs path validation while datagrams are queued. Workload W13 queues more near-maximum datagrams than a congestion window; at the end nothing may sit in the datagram send queue with nothing in flight. path_changed() configurations; estimate and every 1-RTT datagram stay within the peer's max_udp_payload_size.",
 "C14": "Client-side Retry probes at every step index (verifying tag, second Retry verifying against the CID in use, Retry behind a lone server Initial, every tag bit flipped): followed at most once and never after a server packet was accepted. Bloom-log lifetimes 10 s / 1.5 s / 0.7 s.",
 "C16": "Admission sweep also for unequal connection-ID lengths of the two peers. The path shrinks while 44 near-maximum datagrams are queued: nothing may stay queued. Queue sequences also start in 0-RTT (accepted / rejected, also window-limited so that early datagrams are still queued when the answer arrives); an empty send queue must account for zero bytes.",
 "C20": "Every NEW_TOKEN token the server emits decodes to an issue time equal to the supplied clock's reading. The drained part also drains the closing side early by its peer's stateless reset. Script-free histories (incl. senders capped at 2 / 20 kB/s) are re-driven by a busy-polling loop (extra transmit polls every 20/50/100/1000 us) and must give the same events and loss counters; zero-latency histories (nanosecond RTT) and silent-peer histories under CID rotation bound timer re-arming.",
}
for _k, _v in EXTRA.items():
    _c = CHECKS[_k]
    CHECKS[_k] = (_c[0], _c[1], _c[2], _c[3] + " " + _v, _c[4], _c[5])
NOT_YET = {
}
REASONS_NA = {}

def main():
    props = [json.loads(l) for l in open(f"{V}/properties.jsonl")]
    checks = []
    na = []
    for p in props:
        pid = p["id"]
        if pid in CHECKS:
            eng, cat, tech, text, note, ref = CHECKS[pid]
            checks.append({
                "property_id": pid,
                "quick_cmd": f"./check {pid} --tier quick",
                "thorough_cmd": f"./check {pid} --tier thorough",
                "evidence_file": f"/verif/evidence/{pid}.json",
                "replay_cmd_template": f"./check {pid} --replay {{path}}",
                "engine": eng,
                "level_claimed": {"category": cat, "text": text, "design_ref": ref},
                "level_note": note,
                "technique": tech,
            })
        else:
            na.append({"property_id": pid, "reason": REASONS_NA.get(pid, "check not built yet in this round (bounded exhaustive exploration is applicable; see DESIGN.md); not claimed until its check exists and passes on the unchanged tree")})
    m = {
        "version": 1,
        "setup_cmd": "for d in comp codec harness harness-udp harness-async; do (cd /verif/$d && CARGO_NET_OFFLINE=true cargo build --offline --bins) || exit 1; done",
        "hooks": {
            "guard": "cargo feature __verif of quinn-proto",
            "enable": "the harness crate depends on /repo/quinn-proto by path with features=[\"__verif\"]; no RUSTFLAGS needed",
            "baseline_off_cmd": "cd /repo && cargo nextest run --workspace --no-fail-fast --tool-config-file pb:/w/lib/nextest.toml --profile pb --test-threads 8 --offline",
            "source_commits": subprocess.run(["git","-C","/repo","log","--format=%h %s","--grep=^verif hook"],capture_output=True,text=True).stdout.strip().splitlines(),
            "add_only": False,
        },
        "engines": [
            {"name": "E1", "path": "comp/src/engine.rs", "serves_properties": ["C01","C12","C13","C14"], "kind_free_text": "explicit-state BFS by replay over real components with reference models"},
            {"name": "E2", "path": "harness/src/explore.rs", "serves_properties": [c["property_id"] for c in checks if "E2" in c["engine"]], "kind_free_text": "deviation-bounded stateless exploration of whole connections (real quinn_proto endpoints on a virtual network)"},
            {"name": "E4", "path": "harness-async/src/exec.rs", "serves_properties": ["C18"], "kind_free_text": "deterministic single-threaded executor + quinn::Runtime + in-memory AsyncUdpSocket; enumerates ready-task choices, cancellation and drop points"},
            {"name": "E5", "path": "harness-udp/src/main.rs", "serves_properties": ["C19"], "kind_free_text": "bounded exhaustive enumeration of transmit shapes over real loopback sockets"},
            {"name": "E3", "path": "harness/src/explore.rs", "serves_properties": [c["property_id"] for c in checks if "E3" in c["engine"]], "kind_free_text": "exhaustive vector enumeration (drop masks, mutations, operation sequences, codec domains)"},
        ],
        "checks": checks,
        "not_applicable": na,
        "notes": "Hook commits add code behind the __verif feature; the only rewritten lines widen #[cfg(test)] to #[cfg(any(test, feature = \"__verif\"))] on a few range-set test helpers (hence add_only=false). All checks: exit 0 held, 1 VIOLATION, 2 machinery failure. known_findings.json lists genuine defects (open ones print KNOWN-FINDING).",
    }
    json.dump(m, open(f"{V}/MANIFEST.json", "w"), indent=1)
    try:
        import jsonschema
        jsonschema.validate(m, json.load(open("/root/.vp/MANIFEST.schema.json")))
        es = json.load(open("/root/.vp/EVIDENCE.schema.json"))
        for c in checks:
            if os.path.exists(c["evidence_file"]):
                ev = json.load(open(c["evidence_file"]))
                jsonschema.validate(ev, es)
                if ev["level"] != c["level_claimed"]["category"]:
                    raise SystemExit(f"{c['property_id']}: evidence level {ev['level']} != claimed {c['level_claimed']['category']}")
        print("manifest + evidence valid;", len(checks), "checks,", len(na), "not claimed")
    except ImportError:
        print("jsonschema not available; wrote manifest unvalidated")

main()
