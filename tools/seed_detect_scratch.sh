#!/bin/sh
# usage: [SEEDDEST=/verif/seededN] tools/seed_detect_scratch.sh Cxx [check ids...]
# Like seed_detect.sh, but the patch is applied to a scratch worktree of /repo (tools/mutant.sh,
# M=/tmp/mut3 by default) so that /repo stays untouched while other jobs build from it.
id="$1"; shift
D=${SEEDDEST:-/verif/seeded}
checks="${*:-$id}"
export M=${M:-/tmp/mut3}
cd /verif
res=""
for c in $checks; do
  s=$(date +%s); out=$(tools/mutant.sh $D/$id/patch.diff $c --tier quick 2>&1); rc=$?; e=$(date +%s)
  if echo "$out" | grep -q "^VIOLATION property=$c"; then v=caught; elif [ $rc -eq 0 ]; then v=missed; else v="rc=$rc"; fi
  sig=$(echo "$out" | grep -E "^  [a-zA-Z0-9:_+./@#()=,-]+: " | head -1 | cut -c3-260 | tr -d '\\' | sed 's/"/\\"/g')
  echo "$id under $c: $v ($((e-s))s) $sig"
  res="$res{\"check\":\"$c\",\"tier\":\"quick\",\"verdict\":\"$v\",\"seconds\":$((e-s)),\"first_violation\":\"$sig\"},"
done
python3 - "$id" "[${res%,}]" "$D" <<'PY'
import json,sys,os
id,res,D=sys.argv[1],json.loads(sys.argv[2]),sys.argv[3]
p=f'{D}/{id}/detection.json'
old=json.load(open(p)) if os.path.exists(p) else []
old=[o for o in old if o['check'] not in [r['check'] for r in res]]+res
json.dump(old,open(p,'w'),indent=1)
PY
