#!/usr/bin/env python3
"""Assembles /verif/DESIGN.md from design_src/*.md plus tables generated from mutants/RESULTS.tsv,
seeded/*/meta.json, seeded/*/detection.json and seeded/MATRIX.tsv."""
import json, os, glob, csv
V='/verif'
def mutants_table():
    p=f'{V}/mutants/RESULTS.tsv'
    if not os.path.exists(p): return '(not run)\n'
    rows=list(csv.reader(open(p),delimiter='\t'))[1:]
    out='| mutant | check | verdict | repository suite with the mutant | first violation |\n|---|---|---|---|---|\n'
    for r in rows:
        r=(r+['']*5)[:5]
        suite=r[3].replace('319 tests run: ','') if r[3] not in ('-','') else ('original code' if r[0].startswith('reintroduce') else '')
        out+=f'| {r[0]} | {r[1]} | {r[2]} | {suite} | {r[4][:70]} |\n'
    n=len(rows); c=sum(1 for r in rows if r[2]=='caught')
    return out+f'\n{c} of {n} caught by the quick tier of the named check.\n'
def seeded_table(root, label):
    out='| seed | change | own check, quick tier | also caught by |\n|---|---|---|---|\n'
    matrix={}
    mp=f'{V}/{root}/MATRIX.tsv'
    if os.path.exists(mp):
        for r in list(csv.reader(open(mp),delimiter='\t'))[1:]:
            if len(r)>=3 and r[2]=='caught': matrix.setdefault(r[0],[]).append(r[1])
    for d in sorted(glob.glob(f'{V}/{root}/C*')):
        sid=os.path.basename(d)
        try: m=json.load(open(f'{d}/meta.json'))
        except Exception: continue
        det=[]
        if os.path.exists(f'{d}/detection.json'): det=json.load(open(f'{d}/detection.json'))
        own=[x for x in det if x['check']==sid[:3]]
        ov=own[-1]['verdict'] if own else '?'
        first=(own[-1]['first_violation'] if own else '')[:60]
        others=sorted(set([x['check'] for x in det if x['check']!=sid[:3] and x['verdict']=='caught']+[c for c in matrix.get(sid,[]) if c!=sid[:3]]))
        note=m.get('strengthened','')
        summ=(m.get('one_line') or m['summary'].split('. ')[0][:140]).replace('|','\\|')
        first=first.replace('|','\\|')
        out+=f"| {sid} | {summ} | {ov}{(' — '+first) if first else ''}{(' ('+note+')') if note else ''} | {', '.join(others) or '-'} |\n"
    return out
parts=sorted(glob.glob(f'{V}/design_src/*.md'))
doc=''
for p in parts:
    s=open(p).read()
    s=s.replace('<<MUTANTS_TABLE>>',mutants_table()).replace('<<SEEDED_TABLE>>',seeded_table('seeded','round 1'))
    for n in (2,3,4,5,6,7,8,9):
        tag=f'<<SEEDED{n}_TABLE>>'
        if tag in s:
            s=s.replace(tag,seeded_table(f'seeded{n}',f'round {n}') if os.path.isdir(f'{V}/seeded{n}') else '(none yet)\n')
    doc+=s.rstrip('\n')+'\n\n'
open(f'{V}/DESIGN.md','w').write(doc)
print('DESIGN.md', len(doc.splitlines()), 'lines')
