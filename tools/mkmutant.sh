#!/bin/sh
# usage: tools/mkmutant.sh <name> <file-relative-to-repo> <python-replace-old> <python-replace-new>
# Creates /verif/mutants/<name>.patch by replacing one exact string occurrence in a scratch worktree.
set -eu
M=/tmp/mut
name="$1"; file="$2"; old="$3"; new="$4"
mkdir -p $M
if [ ! -d $M/repo ]; then git -C /repo worktree add -q --detach $M/repo HEAD; fi
git -C $M/repo reset -q --hard
git -C $M/repo checkout -q --detach "$(git -C /repo rev-parse HEAD)"
git -C $M/repo reset -q --hard
python3 - "$M/repo/$file" "$old" "$new" <<'PY'
import sys
p,old,new=sys.argv[1:4]
s=open(p).read()
assert s.count(old)>=1, "pattern not found"
s=s.replace(old,new,1)
open(p,'w').write(s)
PY
git -C $M/repo diff > /verif/mutants/$name.patch
git -C $M/repo reset -q --hard
echo "wrote mutants/$name.patch ($(wc -l < /verif/mutants/$name.patch) lines)"
